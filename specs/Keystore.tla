------------------------------ MODULE Keystore ------------------------------
(***************************************************************************)
(* C37 "Keystore encryption is a faithful, tamper-evident round trip"      *)
(* (lib/keystore/encrypt.go, helpers.go).                                  *)
(*                                                                         *)
(* The specification is an IDEAL AEAD with the layout the code documents:  *)
(*   stored = nonce (12) ++ body (Len(msg)) ++ tag (16),                   *)
(*   key = KDF(password) (injective: BLAKE2b-256 is assumed collision      *)
(*   free), the tag is an ideal MAC over (key, nonce, body): it verifies   *)
(*   for exactly the triple it was computed for and for nothing else.      *)
(* Bytes are symbolic cells [c, i, x]: c = part ("n", "b", "t"), i = index *)
(* in the part, x = XOR mask applied by tampering (0 = untouched).         *)
(*                                                                         *)
(* A CASE is one independent experiment                                    *)
(*   [api, scheme, mlen, pw, dpw, mut]                                     *)
(*   api    "raw" Encrypt/Decrypt, "key" EncryptPrivateKey/                *)
(*          DecryptPrivateKey, "file" EncryptAndWriteToFile/               *)
(*          ReadFromFileAndDecrypt (the mutation is applied to the stored  *)
(*          Ciphertext field)                                              *)
(*   scheme sr25519 / ed25519 / secp256k1 (none for raw), mlen = length of *)
(*          the encoded private key (raw: of the message)                  *)
(*   pw     password class used to encrypt: empty, ascii, long (1 KiB),    *)
(*          unicode                                                        *)
(*   dpw    password used to decrypt, relative to pw: same, other,         *)
(*          append0 (pw ++ 0x00), droplast, empty                          *)
(*   mut    none | flip(pos, bit) | trunc(n) for EVERY n < length |        *)
(*          extend(n)                                                      *)
(* Sentences of the property:                                              *)
(*  "decrypting the stored ciphertext with the same password returns the   *)
(*   same key"                                   -> Verdict = "key" and    *)
(*                                                  RoundTrip              *)
(*  "Decrypting with a different password, or decrypting any modified or   *)
(*   truncated ciphertext, returns an error, never a different key"        *)
(*                                               -> TamperEvident          *)
(*  "and never a crash"                          -> Decrypt is TOTAL: it   *)
(*   is defined (returns Error) for every length, including data shorter   *)
(*   than the nonce; the harness runs the real calls under recover.        *)
(* Not pinned by the statement and therefore not generated: tampering with *)
(* the Type / PublicKey fields of the key file, malformed JSON.            *)
(***************************************************************************)
EXTENDS Integers, Sequences, FiniteSets, TLC, Json

CONSTANTS Bits,      \* bit indices used by flip mutations in this configuration
          Quick      \* TRUE: only the quick-tier selection of the product is explored / emitted

VARIABLES cs, hist, done
vars == <<cs, hist, done>>

NonceLen == 12
TagLen == 16

Schemes == {"sr25519", "ed25519", "secp256k1"}
KeyLen(s) == IF s = "ed25519" THEN 64 ELSE 32
PwClasses == {"empty", "ascii", "long", "unicode"}
(* besides an unrelated password: near misses a key derivation must NOT normalise away (a     *)
(* trailing zero byte, line terminators, a blank, a dropped last byte)                       *)
DpwKinds == {"same", "other", "append0", "droplast", "empty", "appendnl", "appendcrlf", "appendspace", "prependspace"}

(* the decryption password equals the encryption password *)
SamePw(c) == c.dpw = "same" \/ (c.dpw = "empty" /\ c.pw = "empty")
(* droplast needs a non-empty password *)
WellFormed(c) == ~(c.dpw = "droplast" /\ c.pw = "empty")

StoredLen(mlen) == NonceLen + mlen + TagLen

Cell(part, i) == [c |-> part, i |-> i, x |-> 0]
Encrypt(mlen) == [i \in 1..NonceLen |-> Cell("n", i)] \o [i \in 1..mlen |-> Cell("b", i)] \o [i \in 1..TagLen |-> Cell("t", i)]

Mutate(d, m) ==
  CASE m.k = "none" -> d
    [] m.k = "flip" -> [d EXCEPT ![m.pos].x = 2 ^ m.bit]
    [] m.k = "trunc" -> SubSeq(d, 1, m.n)
    [] m.k = "extend" -> d \o [i \in 1..m.n |-> [c |-> "z", i |-> i, x |-> 0]]

(* Decrypt: total.  keyOK = the decryption key equals the encryption key.  *)
Decrypt(d, mlen, keyOK) ==
  IF Len(d) < NonceLen + TagLen THEN [ok |-> FALSE, why |-> "short"]
  ELSE LET nonce == SubSeq(d, 1, NonceLen)
           body == SubSeq(d, NonceLen + 1, Len(d) - TagLen)
           tag == SubSeq(d, Len(d) - TagLen + 1, Len(d))
           orig == Encrypt(mlen)
           (* ideal MAC: verifies only for the original (key, nonce, body) and the original tag *)
           verifies == /\ keyOK
                       /\ nonce = SubSeq(orig, 1, NonceLen)
                       /\ body = SubSeq(orig, NonceLen + 1, NonceLen + mlen)
                       /\ tag = SubSeq(orig, NonceLen + mlen + 1, Len(orig))
       IN IF verifies THEN [ok |-> TRUE, why |-> "plain"] ELSE [ok |-> FALSE, why |-> "auth"]

Outcome(c) == Decrypt(Mutate(Encrypt(c.mlen), c.mut), c.mlen, SamePw(c))

(* what the real call must return *)
Verdict(c) == IF Outcome(c).ok THEN "key" ELSE "error"

(* input class for signatures *)
Class(c) ==
  IF c.mut.k = "trunc" THEN (IF c.mut.n < NonceLen THEN "trunc-below-nonce"
                             ELSE IF c.mut.n < NonceLen + TagLen THEN "trunc-below-tag" ELSE "trunc")
  ELSE IF c.mut.k = "flip" THEN (IF c.mut.pos <= NonceLen THEN "flip-nonce"
                                 ELSE IF c.mut.pos <= NonceLen + c.mlen THEN "flip-body" ELSE "flip-tag")
  ELSE IF c.mut.k = "extend" THEN "extend"
  ELSE IF SamePw(c) THEN "intact-same-password" ELSE "intact-wrong-password"

--------------------------------------------------------------------------
(* ---- the case space ---------------------------------------------------- *)
(* NB: built by quantifiers inside Init, not as a constant set: TLC evaluates *)
(* every constant-level definition eagerly at start-up.                       *)
KeyApis == {"key", "file"}
RawLens == {0, 1, 32, 33}
Subjects == {[api |-> a, scheme |-> s, mlen |-> KeyLen(s)] : a \in KeyApis, s \in Schemes}
            \cup {[api |-> "raw", scheme |-> "none", mlen |-> n] : n \in RawLens}
AllMuts(mlen) == {[k |-> "none"]}
                 \cup {[k |-> "flip", pos |-> p, bit |-> b] : p \in 1..StoredLen(mlen), b \in Bits}
                 \cup {[k |-> "trunc", n |-> n] : n \in 0..(StoredLen(mlen) - 1)}
                 \cup {[k |-> "extend", n |-> n] : n \in {1, 16}}

(* quick tier: every password pair on intact data; with the ascii password every       *)
(* truncation length, every byte flipped (all Bits) and the extensions; under the      *)
(* other password classes every truncation and bit 3 of the bytes at the part          *)
(* boundaries; a wrong password on some truncations                                    *)
Boundary(c) == {1, NonceLen, NonceLen + 1, StoredLen(c.mlen) - TagLen, StoredLen(c.mlen) - TagLen + 1, StoredLen(c.mlen)}
Selected(c) ==
  \/ ~Quick
  \/ c.mut.k = "none"
  \/ c.pw = "ascii" /\ c.dpw = "same"
  \/ c.dpw = "same" /\ (c.mut.k = "trunc" \/ (c.mut.k = "flip" /\ c.mut.bit = 3 /\ c.mut.pos \in Boundary(c)))
  \/ c.pw = "ascii" /\ c.dpw = "other" /\ c.mut.k = "trunc" /\ c.mut.n \in {0, 5, 11, 12, 27, 28}

(* one state per case.  Init fixes subject and passwords (mutation "pending"), the only  *)
(* step chooses the mutation and completes the case (so TLC's workers share the work). *)
Init == \E sj \in Subjects, pw \in PwClasses, dpw \in DpwKinds :
          /\ cs = [api |-> sj.api, scheme |-> sj.scheme, mlen |-> sj.mlen, pw |-> pw, dpw |-> dpw, mut |-> [k |-> "pending"]]
          /\ WellFormed(cs)
          /\ hist = <<>>
          /\ done = FALSE
(* everything the invariants and the harness need about a case, computed once *)
Summary(c) ==
  LET d == Mutate(Encrypt(c.mlen), c.mut)
      out == Decrypt(d, c.mlen, SamePw(c))
  IN [verdict |-> IF out.ok THEN "key" ELSE "error", class |-> Class(c), why |-> out.why,
      changed |-> d # Encrypt(c.mlen), len |-> Len(d)]
Next == /\ ~done
        /\ \E m \in AllMuts(cs.mlen) :
             LET c == [cs EXCEPT !.mut = m] IN
             /\ Selected(c)
             /\ cs' = c
             /\ \E r \in {Summary(c)} : hist' = <<[o |-> c, res |-> r]>>
             /\ done' = TRUE
SpecCases == Init /\ [][Next]_vars

Dump == done => PrintT(<<"TRACE", ToJson(hist)>>)

--------------------------------------------------------------------------
(* ---- properties of the specification (engine M) ------------------------ *)

TypeOK == done => /\ cs.api \in {"raw", "key", "file"}
                  /\ cs.pw \in PwClasses /\ cs.dpw \in DpwKinds
                  /\ (cs.api # "raw" => cs.scheme \in Schemes /\ cs.mlen = KeyLen(cs.scheme))
                  /\ (cs.mut.k = "trunc" => cs.mut.n \in 0..(StoredLen(cs.mlen) - 1))
                  /\ (cs.mut.k = "flip" => cs.mut.pos \in 1..StoredLen(cs.mlen) /\ cs.mut.bit \in 0..7)

R == hist[1].res
(* same password and untouched ciphertext: the same key comes back *)
RoundTrip == (done /\ cs.mut.k = "none" /\ SamePw(cs)) => R.verdict = "key"
(* any other password, any modification, any truncation: an error *)
TamperEvident == (done /\ (cs.mut.k # "none" \/ ~SamePw(cs))) => R.verdict = "error"
(* a mutation really changes the stored bytes (no vacuous "mutations") *)
MutationsChange == (done /\ cs.mut.k # "none") => R.changed
(* anything shorter than nonce + tag is rejected before it is split *)
ShortRejected == (done /\ R.len < NonceLen + TagLen) => R.why = "short"
=============================================================================
