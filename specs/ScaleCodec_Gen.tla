--------------------------- MODULE ScaleCodec_Gen ---------------------------
(* Concrete type universes for ScaleCodec (C11, C12); .cfg files cannot     *)
(* express records and sequences.                                           *)
EXTENDS ScaleCodec

OnlyRt == {"rt"}
OnlyDec == {"dec"}
BothKinds == {"rt", "dec"}

LeafSet == {Leaves[i] : i \in 1..Len(Leaves)}

SA == ScTuple(<<ScU(1), ScU(2), ScU(4)>>)
SB == ScStruct(<<ScU(1), ScBytes, ScBool, ScCompact>>, <<3, 1, 2, -1>>)     \* order: 2 3 1 4
SC == ScStruct(<<ScU(1), ScU(2), ScU(4)>>, <<-1, 2, 1>>)                      \* order: 3 2 1
SD == ScStruct(<<SB, ScOpt(SA), ScSlice(SC)>>, <<2, 1, -1>>)
SE == ScTuple(<<EnumA, ScRes(ScU(4), ScBytes), ScMap(ScU(1), ScU(2))>>)
SF == ScStruct(<<ScBigInt, ScU128, ScStr, ScI(8)>>, <<10, 7, 8, 9>>)
(* a WIDE struct (17 fields): tagged fields declared late among untagged ones.  Field order is decided by a sort; sorts that *)
(* are stable for a dozen elements need not be for more (seed C11d)                                                          *)
SW == ScStruct([i \in 1..17 |-> IF i = 9 THEN ScU(2) ELSE ScU(1)],
               [i \in 1..17 |-> IF i = 14 THEN 2 ELSE IF i = 16 THEN 1 ELSE -1])

(* depth-1 constructions over every leaf *)
D1 == {ScOpt(t) : t \in LeafSet} \cup {ScSlice(t) : t \in LeafSet} \cup {ScArr(3, t) : t \in LeafSet}
      \cup {ScMap(ScU(1), t) : t \in LeafSet}

Structs == {SA, SB, SC, SD, SE, SF, SW}
Mixed == { ScRes(ScU(4), ScStr), ScRes(ScBool, SA), ScRes(ScCompact, ScBigInt), EnumA, EnumB,
           ScSlice(EnumA), ScOpt(EnumB), ScArr(2, EnumA),
           ScSlice(ScSlice(ScU(2))), ScSlice(ScOpt(ScU(2))), ScOpt(ScOpt(ScU(1))), ScArr(2, ScArr(2, ScU(1))),
           ScSlice(SB), ScOpt(SB), ScArr(2, SC), ScMap(ScU(1), SA), ScMap(ScU(2), ScSlice(ScU(1))),
           ScMap(ScCompact, ScU(2)), ScSlice(ScMap(ScU(1), ScU(1))), ScOpt(ScSlice(ScBigInt)) }

(* C11 exhaustive case enumeration (quick and thorough) *)
QTypes == LeafSet \cup D1 \cup Structs \cup Mixed

(* C12 exhaustive mutation enumeration: every leaf, one of each construction *)
DTypes == LeafSet \cup {ScOpt(ScU(2)), ScOpt(ScBool), ScSlice(ScU(2)), ScSlice(ScBytes), ScArr(3, ScU(2)), ScMap(ScU(1), ScU(2)),
                        SB, SC, EnumA, ScRes(ScU(4), ScStr), ScSlice(ScCompact), ScOpt(ScBigInt)}
DTypesT == DTypes \cup Structs \cup Mixed

(* engine M: every leaf and one of each construction *)
MTypes == LeafSet \cup {ScOpt(ScU(2)), ScSlice(ScU(2)), ScArr(2, ScBool), ScMap(ScU(1), ScU(2)), SB, SC, EnumA,
                        ScRes(ScU(4), ScStr), ScSlice(ScCompact), ScOpt(ScBigInt), ScSlice(ScOpt(ScU(1)))}
MTypesT == QTypes
=============================================================================
