SPECIFICATION Spec
CONSTANTS
  NV = 3
  Byz = {}
  Parent <- P2
  MaxRound = 2
  CommitMin = 3
  PrevoteAboveEstimate = FALSE
  Depth = 100
INVARIANTS TypeOK HonestVoteOnce HonestPrecommitOnce Safety
PROPERTY FinalityMonotone
VIEW View
CHECK_DEADLOCK FALSE
