SPECIFICATION SpecAll
CONSTANTS
  MaxEpoch = 9
  MaxSkip = 3
  Depth = 5
INVARIANT Dump
CHECK_DEADLOCK FALSE
