SPECIFICATION CtSpec
CONSTANTS
  Types <- NoTypes
  CaseKinds <- OnlyDec
  Depth = 1
  RandDepth = 1
  TyNames <- C33AllNames
INVARIANT Dump
CHECK_DEADLOCK FALSE
