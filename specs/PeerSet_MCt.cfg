SPECIFICATION Spec
CONSTANTS
  Peers = {p1, p2}
  Limits = {0, 1}
  MinRep <- McMin
  MaxRep = 2
  Threshold <- McThr
  Penalty <- McPen
  TickDiv = 2
  Deltas <- McDeltasQ
  MaxList = 1
  MaxReportList = 2
  Ticks = {1}
SYMMETRY Sym
INVARIANTS EveryOpHasOutcome
VIEW View
CHECK_DEADLOCK FALSE
