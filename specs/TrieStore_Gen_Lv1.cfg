SPECIFICATION SSpecRand
CONSTANTS
  StKeys <- GlKeys
  StVals <- GlVals
  StProbe <- GlProbe
  StOpKinds <- StAllKinds
  StStartV1 = TRUE
  StPrune = {FALSE}
  StMaxCommits = 1000
  StDepth = 30
INVARIANT SDump
CHECK_DEADLOCK FALSE
