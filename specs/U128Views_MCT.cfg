SPECIFICATION SpecAll
CONSTANTS
  Depth = 1
  Universe = "cover"
  ByteVals <- BV
INVARIANTS TypeOK Laws
CHECK_DEADLOCK FALSE
