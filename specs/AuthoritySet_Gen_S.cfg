SPECIFICATION SpecRand
CONSTANTS
  MaxBlocks = 8
  MaxAnn = 4
  Anns <- GAnns
  Depth = 13
  Record = TRUE
INVARIANT Dump
CHECK_DEADLOCK FALSE
