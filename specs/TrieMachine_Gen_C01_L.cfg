SPECIFICATION SpecRand
CONSTANTS
  Keys <- LKeys
  Vals <- LVals
  Prefixes <- LPrefixes
  Limits <- SLimits
  OpKinds <- RootKinds
  FreezeParents = FALSE
  MaxHandles = 1
  Depth = 24
INVARIANT Dump
CHECK_DEADLOCK FALSE
