-------------------------- MODULE GrandpaProtocol --------------------------
(***************************************************************************)
(* C22.  GRANDPA finality is safe under a Byzantine minority.              *)
(*                                                                         *)
(* The model is written like lib/grandpa, NOT like the paper: one action   *)
(* per step function of the voter (Service) so that every behaviour can be *)
(* replayed against real Service instances:                                *)
(*                                                                         *)
(*   Learn(v,b)        a block reaches v's block state                     *)
(*   Prevote(v)        determinePreVote: best known block above s.head, or *)
(*                     the round primary's prevote if v holds one          *)
(*   Precommit(v,D)    deliver prevotes D (validateVoteMessage), then      *)
(*                     determinePreCommit = prevote GHOST                  *)
(*   Finalise(v,D)     deliver precommits D, then attemptToFinalize:       *)
(*                     best final candidate with > 2/3 precommits          *)
(*   AcceptCommit(v,r,t,S)  handleCommitMessage for a commit of round r,   *)
(*                     target t, built from ANY precommits that exist      *)
(*   NextRound(v)      initiateRound once the round holds a finalised      *)
(*                     block (checkRoundCompletable)                       *)
(*                                                                         *)
(* Network: any sent vote may be delivered to any voter at any time or     *)
(* never (delivery is folded into the consuming step: a hand-made partial  *)
(* order reduction that keeps every observable tally).  Byzantine voters:  *)
(* every vote [byz, round, block] exists and may be shown to some voters   *)
(* and not to others (equivocation, selective sending).                    *)
(*                                                                         *)
(* Tally semantics follow lib/grandpa: total(B) = number of stored votes   *)
(* for B or a descendant + number of recorded equivocators; a second,      *)
(* different vote of a sender turns it into an equivocator and removes its *)
(* stored vote; votes for unknown blocks or blocks not descending from     *)
(* s.head are not counted.                                                 *)
(*                                                                         *)
(* Safety is the statement: no two honest voters finalise blocks on        *)
(* different forks.                                                        *)
(***************************************************************************)
EXTENDS Integers, Sequences, FiniteSets, TLC, Json

CONSTANTS NV,         \* voters are 1..NV
          Byz,        \* Byzantine voters (3 * |Byz| < NV)
          Parent,     \* sequence: Parent[b] for blocks 1..Len(Parent); genesis is block 0
          MaxRound,
          CommitMin,  \* weight a commit needs: threshold + 1 in the specification of C18
          PrevoteAboveEstimate, \* FALSE = lib/grandpa (prevote the best block); TRUE = paper rule (ablation)
          Depth

Voters == 1..NV
Honest == Voters \ Byz
Blocks == 0..Len(Parent)
Par(b) == IF b = 0 THEN 0 ELSE Parent[b]
RECURSIVE Height(_)
Height(b) == IF b = 0 THEN 0 ELSE 1 + Height(Par(b))
RECURSIVE Anc(_)   \* ancestors of b including b
Anc(b) == IF b = 0 THEN {0} ELSE {b} \cup Anc(Par(b))
IsDesc(a, b) == a \in Anc(b)          \* blockState.IsDescendantOf(a, b): b descends from (or is) a
OnSameChain(a, b) == IsDesc(a, b) \/ IsDesc(b, a)
LCA(a, b) == LET C == Anc(a) \cap Anc(b) IN CHOOSE c \in C : \A d \in C : Height(d) <= Height(c)
Threshold == (2 * NV) \div 3

VARIABLES round,   \* round[v]      s.state.round
          stage,   \* stage[v]      "start" | "prevoted" | "precommitted" | "done"
          head,    \* head[v]       s.head
          known,   \* known[v]      blocks in v's block state (abandoned forks are pruned on finalisation)
          arr,     \* arr[v]        the order in which blocks reached v (fork-choice tie break: earlier arrival)
          finR,    \* finR[v]       function round -> finalised block (block state rows), 0 = genesis at round 0
          bsHead,  \* bsHead[v]     block state's highest finalised block
          pv, pc,  \* pv[v], pc[v]  stored votes of the current round: function sender -> block (partial)
          epv, epc,\* recorded equivocators of the current round
          sentPV, sentPC, \* honest votes that exist in the network: sets of [w, r, b]
          hist, done

vars == <<round, stage, head, known, arr, finR, bsHead, pv, pc, epv, epc, sentPV, sentPC, hist, done>>

Primary(r) == ((r % NV) + 1)

(* ---- tallies as lib/grandpa computes them -------------------------------- *)
Total(votes, eq, b) == Cardinality({w \in DOMAIN votes : IsDesc(b, votes[w])}) + Cardinality(eq)
Super(votes, eq) == {b \in Blocks : Total(votes, eq, b) > Threshold}
Highest(S) == CHOOSE b \in S : \A c \in S : Height(c) <= Height(b)
(* lib/grandpa's getPossibleSelectedBlocks (deviation from the paper's GHOST, named          *)
(* GossamerDirectVoteShortcut): if some DIRECTLY voted block has more than two thirds, only    *)
(* directly voted blocks are candidates; otherwise the lowest common ancestors of pairs of      *)
(* voted blocks are.  C21's specification (VoterChoice) states the ideal rule and its check     *)
(* reports the difference; here the model follows the code so that behaviours stay replayable.  *)
Voted(votes) == {votes[w] : w \in DOMAIN votes}
Selected(votes, eq) ==
  LET DV == {b \in Voted(votes) : Total(votes, eq, b) > Threshold}
      PL == {LCA(x, y) : x \in Voted(votes), y \in Voted(votes)} \ Voted(votes)
  IN IF DV # {} THEN DV ELSE {b \in PL : Total(votes, eq, b) > Threshold}
(* the code's search over ancestors returns early / iterates a Go map: where its answer may   *)
(* depend on iteration order the model does not take the step (generator) -- see PrecommitOK   *)
Ambiguous(votes, eq) ==
  \/ /\ {b \in Voted(votes) : Total(votes, eq, b) > Threshold} = {}
     /\ \E x, y \in Voted(votes) : x # y /\ IsDesc(x, y)
  \/ \E x, y \in Selected(votes, eq) : x # y /\ Height(x) = Height(y)
                                        /\ \A z \in Selected(votes, eq) : Height(z) <= Height(x)
HasGhost(votes, eq) == Selected(votes, eq) # {}
Ghost(votes, eq) == Highest(Selected(votes, eq))
(* best final candidate: highest block at or below the prevote GHOST that is selected by the *)
(* precommits, or the common ancestor with the GHOST of a selected block                      *)
BFC(g, pcv, pce) == LET S == {LCA(b, g) : b \in Selected(pcv, pce)} IN IF S = {} THEN g ELSE Highest(S)

(* ---- vote delivery (validateVoteMessage) ---------------------------------- *)
Valid(v, b) == b \in known[v] /\ IsDesc(head[v], b)
(* deliver the set D of [w, b] pairs to (votes, eq) *)
Deliver(v, votes, eq, D) ==
  LET senders == {d[1] : d \in D}
      blocksOf(w) == {d[2] : d \in {x \in D : x[1] = w}} \cup (IF w \in DOMAIN votes THEN {votes[w]} ELSE {})
      newEq == eq \cup {w \in senders \ eq : Cardinality(blocksOf(w)) > 1}
      keep == (DOMAIN votes \cup senders) \ newEq
  IN [votes |-> [w \in keep |-> CHOOSE b \in blocksOf(w) : TRUE], eq |-> newEq]

AvailPV(v) == {<<x.w, x.b>> : x \in {y \in sentPV : y.r = round[v] /\ y.w # v /\ Valid(v, y.b)}}
              \cup {<<w, b>> : w \in Byz, b \in {c \in Blocks : Valid(v, c)}}
AvailPC(v) == {<<x.w, x.b>> : x \in {y \in sentPC : y.r = round[v] /\ y.w # v /\ Valid(v, y.b)}}
              \cup {<<w, b>> : w \in Byz, b \in {c \in Blocks : Valid(v, c)}}

(* ---- actions ---------------------------------------------------------------- *)
Rec(o) == hist' = Append(hist, o)

Learn(v, b) ==
  /\ b \notin known[v] /\ Par(b) \in known[v] /\ IsDesc(bsHead[v], Par(b))
  /\ known' = [known EXCEPT ![v] = @ \cup {b}]
  /\ arr' = [arr EXCEPT ![v] = Append(@, b)]
  /\ Rec([a |-> "Learn", v |-> v, b |-> b])
  /\ UNCHANGED <<round, stage, head, finR, bsHead, pv, pc, epv, epc, sentPV, sentPC, done>>

Completable(v) == round[v] \in DOMAIN finR[v] \/ \E r \in DOMAIN finR[v] : r > round[v]

(* fork choice (C16) without primary-slot marks: greatest height, then earliest arrival *)
Pos(v, b) == IF b = 0 THEN 0 ELSE CHOOSE i \in 1..Len(arr[v]) : arr[v][i] = b
BestBlocks(v) ==
  LET C == {b \in known[v] : IsDesc(bsHead[v], b)}
      T == {b \in C : \A c \in C : Height(c) <= Height(b)}
  IN {b \in T : \A c \in T : Pos(v, b) <= Pos(v, c)}
(* finalising c prunes every block that is neither an ancestor nor a descendant of c *)
Pruned(K, c) == {b \in K : OnSameChain(b, c)}

Prevote(v, b) ==
  /\ stage[v] = "start" /\ ~Completable(v)
  /\ \/ /\ b \in BestBlocks(v)
        /\ ~(Primary(round[v]) \in DOMAIN pv[v] /\ Height(pv[v][Primary(round[v])]) >= Height(head[v]))
     \/ /\ Primary(round[v]) \in DOMAIN pv[v] /\ b = pv[v][Primary(round[v])]
        /\ Height(b) >= Height(head[v])
  /\ PrevoteAboveEstimate => \A w \in Honest : \A r \in DOMAIN finR[w] : IsDesc(finR[w][r], b)
  /\ sentPV' = sentPV \cup {[w |-> v, r |-> round[v], b |-> b]}
  /\ pv' = [pv EXCEPT ![v] = [w \in DOMAIN @ \cup {v} |-> IF w = v THEN b ELSE @[w]]]
  /\ stage' = [stage EXCEPT ![v] = "prevoted"]
  /\ Rec([a |-> "Prevote", v |-> v, r |-> round[v], b |-> b])
  /\ UNCHANGED <<round, head, known, arr, finR, bsHead, pc, epv, epc, sentPC, done>>

(* the primary's prevote may reach v before v prevotes *)
RecvPrimary(v, b) ==
  /\ stage[v] = "start" /\ Primary(round[v]) # v
  /\ <<Primary(round[v]), b>> \in AvailPV(v)
  /\ LET d == Deliver(v, pv[v], epv[v], {<<Primary(round[v]), b>>})
     IN pv' = [pv EXCEPT ![v] = d.votes] /\ epv' = [epv EXCEPT ![v] = d.eq]
  /\ Rec([a |-> "RecvPV", v |-> v, r |-> round[v], d |-> <<<<Primary(round[v]), b>>>>])
  /\ UNCHANGED <<round, stage, head, known, arr, finR, bsHead, pc, epc, sentPV, sentPC, done>>

AsSeq(D) == LET RECURSIVE F(_)
                F(S) == IF S = {} THEN <<>> ELSE LET x == CHOOSE y \in S : TRUE IN <<x>> \o F(S \ {x})
            IN F(D)

Precommit(v, D) ==
  /\ stage[v] = "prevoted" /\ ~Completable(v)
  /\ D \subseteq AvailPV(v)
  /\ LET d == Deliver(v, pv[v], epv[v], D) IN
       /\ HasGhost(d.votes, d.eq)
       /\ IsDesc(head[v], Ghost(d.votes, d.eq))
       /\ pv' = [pv EXCEPT ![v] = d.votes] /\ epv' = [epv EXCEPT ![v] = d.eq]
       /\ LET g == Ghost(d.votes, d.eq) IN
            /\ sentPC' = sentPC \cup {[w |-> v, r |-> round[v], b |-> g]}
            /\ pc' = [pc EXCEPT ![v] = [w \in DOMAIN @ \cup {v} |-> IF w = v THEN g ELSE @[w]]]
            /\ Rec([a |-> "Precommit", v |-> v, r |-> round[v], d |-> AsSeq(D), b |-> g])
  /\ stage' = [stage EXCEPT ![v] = "precommitted"]
  /\ UNCHANGED <<round, head, known, arr, finR, bsHead, epc, sentPV, done>>

Finalise(v, D) ==
  /\ stage[v] = "precommitted" /\ ~Completable(v)
  /\ D \subseteq AvailPC(v)
  /\ LET d == Deliver(v, pc[v], epc[v], D)
         g == Ghost(pv[v], epv[v])
         c == BFC(g, d.votes, d.eq)
     IN /\ HasGhost(pv[v], epv[v])
        /\ Height(c) >= Height(head[v])
        /\ Total(d.votes, d.eq, c) > Threshold
        /\ IsDesc(bsHead[v], c)
        /\ pc' = [pc EXCEPT ![v] = d.votes] /\ epc' = [epc EXCEPT ![v] = d.eq]
        /\ finR' = [finR EXCEPT ![v] = [r \in DOMAIN @ \cup {round[v]} |-> IF r = round[v] THEN c ELSE @[r]]]
        /\ bsHead' = [bsHead EXCEPT ![v] = c]
        /\ known' = [known EXCEPT ![v] = Pruned(@, c)]
        /\ head' = [head EXCEPT ![v] = c]
        /\ Rec([a |-> "Finalise", v |-> v, r |-> round[v], d |-> AsSeq(D), b |-> c])
  /\ stage' = [stage EXCEPT ![v] = "done"]
  /\ UNCHANGED <<round, arr, pv, epv, sentPV, sentPC, done>>

(* a commit for round r and target t carrying the precommits S = set of <<w, b>> *)
CommitWeight(t, S) ==
  LET senders == {s[1] : s \in S}
      eqv == {w \in senders : Cardinality({s[2] : s \in {x \in S : x[1] = w}}) > 1}
  IN Cardinality({w \in senders \ eqv : \A s \in S : s[1] = w => IsDesc(t, s[2])}) + Cardinality(eqv)

ExistingPC(r) == {<<x.w, x.b>> : x \in {y \in sentPC : y.r = r}} \cup {<<w, b>> : w \in Byz, b \in Blocks}

AcceptCommit(v, r, t, S) ==
  /\ r \notin DOMAIN finR[v]
  /\ t \in known[v] /\ \A s \in S : s[2] \in known[v]
  /\ S \subseteq ExistingPC(r)
  /\ IsDesc(bsHead[v], t)
  /\ CommitWeight(t, S) >= CommitMin
  /\ finR' = [finR EXCEPT ![v] = [q \in DOMAIN @ \cup {r} |-> IF q = r THEN t ELSE @[q]]]
  /\ bsHead' = [bsHead EXCEPT ![v] = t]
  /\ known' = [known EXCEPT ![v] = Pruned(@, t)]
  /\ Rec([a |-> "AcceptCommit", v |-> v, r |-> r, b |-> t, d |-> AsSeq(S)])
  /\ UNCHANGED <<round, stage, head, arr, pv, pc, epv, epc, sentPV, sentPC, done>>

(* a commit that falls one precommit short must be refused and change nothing *)
RejectCommit(v, r, t, S) ==
  /\ r \notin DOMAIN finR[v]
  /\ t \in known[v] /\ \A s \in S : s[2] \in known[v]
  /\ S \subseteq ExistingPC(r)
  /\ IsDesc(bsHead[v], t)
  /\ CommitWeight(t, S) < CommitMin
  /\ Rec([a |-> "RejectCommit", v |-> v, r |-> r, b |-> t, d |-> AsSeq(S)])
  /\ UNCHANGED <<round, stage, head, known, arr, finR, bsHead, pv, pc, epv, epc, sentPV, sentPC, done>>

HighestRound(v) == CHOOSE r \in DOMAIN finR[v] : \A q \in DOMAIN finR[v] : q <= r

NextRound(v) ==
  /\ Completable(v)
  /\ LET hr == HighestRound(v)
         nr == (IF hr > round[v] THEN hr ELSE round[v]) + 1
     IN /\ nr <= MaxRound
        /\ round' = [round EXCEPT ![v] = nr]
        /\ head' = [head EXCEPT ![v] = finR[v][hr]]
        /\ Rec([a |-> "NextRound", v |-> v, r |-> nr, b |-> finR[v][hr]])
  /\ stage' = [stage EXCEPT ![v] = "start"]
  /\ pv' = [pv EXCEPT ![v] = << >>] /\ pc' = [pc EXCEPT ![v] = << >>]
  /\ epv' = [epv EXCEPT ![v] = {}] /\ epc' = [epc EXCEPT ![v] = {}]
  /\ UNCHANGED <<known, arr, finR, bsHead, sentPV, sentPC, done>>

Init ==
  /\ round = [v \in Honest |-> 1] /\ stage = [v \in Honest |-> "start"]
  /\ head = [v \in Honest |-> 0] /\ bsHead = [v \in Honest |-> 0]
  /\ known = [v \in Honest |-> {0}] /\ arr = [v \in Honest |-> <<>>]
  /\ finR = [v \in Honest |-> [r \in {0} |-> 0]]
  /\ pv = [v \in Honest |-> << >>] /\ pc = [v \in Honest |-> << >>]
  /\ epv = [v \in Honest |-> {}] /\ epc = [v \in Honest |-> {}]
  /\ sentPV = {} /\ sentPC = {} /\ hist = <<>> /\ done = FALSE

Finalised(v) == {finR[v][r] : r \in DOMAIN finR[v]}
Safety == \A v, w \in Honest : \A a \in Finalised(v), b \in Finalised(w) : OnSameChain(a, b)

(* Delivery sets that matter.  The state after a delivery depends only on, per sender, *)
(* "nothing / one vote for b / equivocation"; honest senders have one vote per round,  *)
(* a Byzantine sender contributes nothing, any single vote, or one canonical pair.     *)
ByzChoices(v, w) ==
  LET B == {c \in Blocks : Valid(v, c)}
      two == IF Cardinality(B) >= 2
             THEN LET b1 == CHOOSE x \in B : \A y \in B : x <= y
                      b2 == CHOOSE x \in B \ {b1} : \A y \in B \ {b1} : x <= y
                  IN {{<<w, b1>>, <<w, b2>>}}
             ELSE {}
  IN {{}} \cup {{<<w, b>>} : b \in B} \cup two
RECURSIVE ByzParts(_, _)
ByzParts(v, W) == IF W = {} THEN {{}}
                  ELSE LET w == CHOOSE x \in W : TRUE
                       IN {a \cup b : a \in ByzChoices(v, w), b \in ByzParts(v, W \ {w})}
Deliveries(v, avail) ==
  LET hon == {d \in avail : d[1] \in Honest}
  IN {a \cup b : a \in SUBSET hon, b \in ByzParts(v, Byz)}

(* a commit is accepted iff SOME set of existing precommits carries the weight; the    *)
(* heaviest one is every valid honest precommit plus one (equivocating) per Byzantine  *)
BestCommit(v, r, t) ==
  {<<x.w, x.b>> : x \in {y \in sentPC : y.r = r /\ y.b \in known[v] /\ IsDesc(t, y.b)}}
  \cup {<<w, t>> : w \in Byz}

Step ==
  \/ \E v \in Honest, b \in Blocks : Learn(v, b) \/ Prevote(v, b) \/ RecvPrimary(v, b)
  \/ \E v \in Honest : \E D \in Deliveries(v, AvailPV(v)) : Precommit(v, D)
  \/ \E v \in Honest : \E D \in Deliveries(v, AvailPC(v)) : Finalise(v, D)
  \/ \E v \in Honest, r \in 1..MaxRound, t \in Blocks : AcceptCommit(v, r, t, BestCommit(v, r, t))
  \/ \E v \in Honest : NextRound(v)

(* every honest precommit of the round that v can check, WHATEVER fork it is on: a commit *)
(* for t carrying them must be refused when too few of them are for t or its descendants *)
AnyForkCommit(v, r) == {<<x.w, x.b>> : x \in {y \in sentPC : y.r = r /\ y.b \in known[v]}}

(* the heaviest commit minus one entry, when that makes it fall short *)
ShortCommits(v, r, t) == {BestCommit(v, r, t) \ {x} : x \in BestCommit(v, r, t)}

Quiescent == \A v \in Honest : /\ round[v] = MaxRound /\ Completable(v)
Live == ~done /\ Len(hist) < Depth /\ Safety /\ ~Quiescent
Stop == /\ ~done /\ (Len(hist) >= Depth \/ ~Safety \/ Quiescent) /\ done' = TRUE
        /\ UNCHANGED <<round, stage, head, known, arr, finR, bsHead, pv, pc, epv, epc, sentPV, sentPC, hist>>
(* NOTE the conjunct order: TLC expands quantifiers of a state predicate that precedes *)
(* the action into separate (duplicate) successors; evaluated after it, it is a test.  *)
Next == (Step /\ UNCHANGED done /\ Live) \/ Stop

(* generator: ONE randomly drawn ENABLED step per state (single successor).  Candidate   *)
(* descriptors are collected with their enabling conditions, one is drawn, then executed. *)
(* All RandomElement arguments depend on the state (TLC caches constant expressions).     *)
RSub(S) == RandomElement(SUBSET S)
RandD(v, avail) == RSub({d \in avail : d[1] \in Honest}) \cup RandomElement(ByzParts(v, Byz))
PrecommitOK(v, D) == /\ stage[v] = "prevoted" /\ ~Completable(v)
                     /\ LET d == Deliver(v, pv[v], epv[v], D) IN
                          HasGhost(d.votes, d.eq) /\ ~Ambiguous(d.votes, d.eq) /\ IsDesc(head[v], Ghost(d.votes, d.eq))
FinaliseOK(v, D) == /\ stage[v] = "precommitted" /\ ~Completable(v) /\ HasGhost(pv[v], epv[v])
                    /\ LET d == Deliver(v, pc[v], epc[v], D)
                           c == BFC(Ghost(pv[v], epv[v]), d.votes, d.eq)
                       IN /\ ~Ambiguous(d.votes, d.eq) /\ ~Ambiguous(pv[v], epv[v])
                          /\ Height(c) >= Height(head[v]) /\ Total(d.votes, d.eq, c) > Threshold /\ IsDesc(bsHead[v], c)
CommitOK(v, r, t) == /\ r \notin DOMAIN finR[v] /\ t \in known[v] /\ IsDesc(bsHead[v], t) /\ t # bsHead[v]
                     /\ CommitWeight(t, BestCommit(v, r, t)) >= CommitMin
PrimaryUsable(v) == Primary(round[v]) \in DOMAIN pv[v] /\ Height(pv[v][Primary(round[v])]) >= Height(head[v])
PrevoteChoices(v) == IF PrimaryUsable(v) THEN {pv[v][Primary(round[v])]} ELSE BestBlocks(v)
Candidates ==
  UNION {{[a |-> "Learn", v |-> v, b |-> b, D |-> {}, r |-> 0] : b \in {x \in Blocks : x \notin known[v] /\ Par(x) \in known[v]}} : v \in Honest}
  \cup UNION {{[a |-> "Prevote", v |-> v, b |-> b, D |-> {}, r |-> 0] : b \in PrevoteChoices(v)} : v \in {x \in Honest : stage[x] = "start" /\ ~Completable(x)}}
  \cup UNION {{[a |-> "RecvPrimary", v |-> v, b |-> b, D |-> {}, r |-> 0] : b \in {x \in Blocks : <<Primary(round[v]), x>> \in AvailPV(v)}} :
                 v \in {x \in Honest : stage[x] = "start" /\ Primary(round[x]) # x}}
  \cup {[a |-> "Precommit", v |-> vd[1], b |-> 0, D |-> vd[2], r |-> 0] :
           vd \in {y \in {<<x, RandD(x, AvailPV(x))>> : x \in {z \in Honest : stage[z] = "prevoted"}} : PrecommitOK(y[1], y[2])}}
  \cup {[a |-> "Finalise", v |-> vd[1], b |-> 0, D |-> vd[2], r |-> 0] :
           vd \in {y \in {<<x, RandD(x, AvailPC(x))>> : x \in {z \in Honest : stage[z] = "precommitted"}} : FinaliseOK(y[1], y[2])}}
  \cup UNION {{[a |-> "AcceptCommit", v |-> v, b |-> rt[2], D |-> {}, r |-> rt[1]] : rt \in {x \in (1..MaxRound) \X Blocks : CommitOK(v, x[1], x[2])}} : v \in Honest}
  \cup UNION {{[a |-> "RejectCommit", v |-> v, b |-> rt[2], D |-> RandomElement(ShortCommits(v, rt[1], rt[2])), r |-> rt[1]] :
                   rt \in {x \in (1..MaxRound) \X Blocks : CommitOK(v, x[1], x[2]) /\ CommitWeight(x[2], BestCommit(v, x[1], x[2])) = CommitMin}} : v \in Honest}
  \cup UNION {{[a |-> "RejectCommit", v |-> v, b |-> rt[2], D |-> AnyForkCommit(v, rt[1]), r |-> rt[1]] :
                   rt \in {x \in (1..MaxRound) \X Blocks : x[1] \notin DOMAIN finR[v] /\ x[2] \in known[v] /\ x[2] # bsHead[v]
                                                         /\ IsDesc(bsHead[v], x[2])
                                                         /\ AnyForkCommit(v, x[1]) # {}
                                                         /\ CommitWeight(x[2], AnyForkCommit(v, x[1])) < CommitMin}} : v \in Honest}
  \cup {[a |-> "NextRound", v |-> v, b |-> 0, D |-> {}, r |-> 0] :
           v \in {x \in Honest : Completable(x) /\ (IF HighestRound(x) > round[x] THEN HighestRound(x) ELSE round[x]) + 1 <= MaxRound}}
Exec(c) ==
  CASE c.a = "Learn" -> Learn(c.v, c.b)
    [] c.a = "Prevote" -> Prevote(c.v, c.b)
    [] c.a = "RecvPrimary" -> RecvPrimary(c.v, c.b)
    [] c.a = "Precommit" -> Precommit(c.v, c.D)
    [] c.a = "Finalise" -> Finalise(c.v, c.D)
    [] c.a = "AcceptCommit" -> AcceptCommit(c.v, c.r, c.b, BestCommit(c.v, c.r, c.b))
    [] c.a = "RejectCommit" -> RejectCommit(c.v, c.r, c.b, c.D)
    [] OTHER -> NextRound(c.v)
Skip == /\ hist' = Append(hist, [a |-> "Skip"])
        /\ UNCHANGED <<round, stage, head, known, arr, finR, bsHead, pv, pc, epv, epc, sentPV, sentPC, done>>
NextRand ==
  \/ /\ \E c \in {RandomElement(Candidates \cup {[a |-> "None", v |-> 0, b |-> 0, D |-> {}, r |-> 0]})} :
           IF c.a = "None" THEN Skip ELSE Exec(c)
     /\ UNCHANGED done /\ Live
  \/ Stop
SpecRand == Init /\ [][NextRand]_vars
Spec == Init /\ [][Next]_vars

(* behaviours leave TLC when they end (depth) or when they reach an unsafe state *)
Dump == done => PrintT(<<"TRACE", ToJson([safe |-> Safety, nv |-> NV, byz |-> AsSeq(Byz), parent |-> Parent,
                                          commitMin |-> CommitMin, steps |-> hist])>>)
View == <<round, stage, head, known, arr, finR, bsHead, pv, pc, epv, epc, sentPV, sentPC, done>>

(* sanity properties of the model itself *)
TypeOK == /\ \A v \in Honest : round[v] \in 1..MaxRound /\ head[v] \in Blocks /\ bsHead[v] \in Blocks
          /\ \A v \in Honest : DOMAIN pv[v] \subseteq Voters /\ DOMAIN pc[v] \subseteq Voters
HonestVoteOnce == \A x, y \in sentPV : (x.w = y.w /\ x.r = y.r) => x = y
HonestPrecommitOnce == \A x, y \in sentPC : (x.w = y.w /\ x.r = y.r) => x = y
FinalityMonotone == [][\A v \in Honest : IsDesc(bsHead[v], bsHead'[v])]_vars
=============================================================================
