SPECIFICATION SpecGrid
CONSTANTS
  NatBase = 32768
  GridC = 12
  GridN = 12
  MaxN = 12
  Depth = 1
INVARIANT Dump
CHECK_DEADLOCK FALSE
