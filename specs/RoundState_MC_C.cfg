SPECIFICATION SpecAll
CONSTANTS
  Trees <- MTrees3
  Voters = {a, b, c, d}
  EqV = {a}
  LeafBias = FALSE
  PVUnanimous = TRUE
  W <- UnitW
  MaxPV = 1
  MaxPC = 2
  Depth = 0
SYMMETRY SymRest
INVARIANTS TypeOK ChainWhenTolerant PossibleForms PrecommitSide
PROPERTY Monotone
VIEW View
CHECK_DEADLOCK FALSE
