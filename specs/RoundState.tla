----------------------------- MODULE RoundState -----------------------------
(***************************************************************************)
(* C20  "For every block tree and every set of prevotes and precommits     *)
(* imported into a round in any order, the round's prevote GHOST,          *)
(* estimate, finalized block and completability equal the GRANDPA paper    *)
(* definitions over the vote weights.  The vote set may include duplicates *)
(* and equivocations, and an equivocator's weight counts towards every     *)
(* block."                                                                 *)
(*                                                                         *)
(* The definitions below are FUNCTIONS OF THE VOTE SETS (S[v] = set of     *)
(* blocks voter v has voted for in one phase): duplicates vanish and the   *)
(* import order cannot matter by construction.  The state machine imports  *)
(* one vote per step; the conformance harness                              *)
(* (harness/pkg/finality-grandpa/zz_verif_roundstate_test.go) replays the  *)
(* same imports through Round.importPrevote / importPrecommit and compares *)
(* State(), PrecommitGHOST() after EVERY import.                           *)
(*                                                                         *)
(* What the statement does not pin down is flagged, not guessed:           *)
(*  - "the block of highest number with a supermajority" is only a         *)
(*    definition when the supermajority blocks form a chain, which the     *)
(*    paper guarantees (and invariant ChainWhenTolerant proves) for        *)
(*    TOLERANT vote sets (equivocating weight <= f).  For intolerant sets  *)
(*    the protocol promises nothing and nothing is compared except that    *)
(*    the import neither fails nor panics (finality-grandpa does not even  *)
(*    enter the second vote of an equivocator into its vote graph, so      *)
(*    with > f equivocators its GHOST can be below the literal "highest    *)
(*    block with a supermajority"); cmpGhost, cmpFin, cmpPc say when the   *)
(*    respective value is compared;                                        *)
(*  - "possible to have a supermajority" quantifies over TOLERANT          *)
(*    extensions of the precommit set, so estimate and completability are  *)
(*    compared (cmpEst) only when the precommits seen are tolerant, the    *)
(*    weights are unit weights (the paper's setting), and either the voter *)
(*    count is 3f+1 or at least a threshold of precommit weight was seen   *)
(*    (for n # 3f+1 the paper's threshold (n+f+1)/2 is not n-f and the     *)
(*    code's early exit "fewer than threshold precommits => estimate is    *)
(*    the GHOST" is not derivable from the definition; invariant           *)
(*    ShortcutExact proves it for n = 3f+1).                               *)
(***************************************************************************)
EXTENDS GrandpaVotes, TLC, Json

CONSTANTS Trees,    \* set of block trees (sequences, see VoteForest)
          Voters,   \* set of voter ids
          W,        \* weight function  Voters -> Nat \ {0}
          MaxPV,    \* bound: distinct prevote targets kept per voter
          MaxPC,    \* bound: distinct precommit targets kept per voter
          EqV,      \* voters that may cast more than one vote per phase (the others cast at most one)
          LeafBias,    \* TRUE (generator only): votes name leaves only, so intermediate blocks stay
                       \* unvoted and the vote graph has to find merge points
          PVUnanimous, \* TRUE: model checking restricted to prevote sets in which every prevote names
                       \* the same block (the precommit-side notions see the prevotes only through g(V))
          Depth     \* behaviour length (generator)

VARIABLES par,   \* the block tree of this behaviour
          pv,    \* prevotes:   [Voters -> SUBSET blocks]
          pc,    \* precommits: [Voters -> SUBSET blocks]
          hist, done

vars == <<par, pv, pc, hist, done>>

--------------------------------------------------------------------------
(* The paper definitions (RS* operators: RSGhost, RSEstimate, RSFinalized, *)
(* RSCompletable, RSObs ...) live in the pure module lib/GrandpaVotes.tla    *)
(* so that other families (C19 Justification, C22) can EXTEND them.         *)

--------------------------------------------------------------------------
(* ---- state machine: one import per step ------------------------------- *)

Blocks == VFBlocks(par)

Init == /\ par \in Trees
        /\ pv = [v \in Voters |-> {}]
        /\ pc = [v \in Voters |-> {}]
        /\ hist = <<>>
        /\ done = FALSE

Ops == {[op |-> "Prevote", v |-> v, b |-> b] : v \in Voters, b \in Blocks}
  \cup {[op |-> "Precommit", v |-> v, b |-> b] : v \in Voters, b \in Blocks}

Allowed(o) == /\ (PVUnanimous /\ o.op = "Prevote") => \A v \in Voters : pv[v] \subseteq {o.b}
              /\ LET mx == IF o.v \in EqV THEN (IF o.op = "Prevote" THEN MaxPV ELSE MaxPC) ELSE 1
                 IN IF o.op = "Prevote" THEN Cardinality(pv[o.v] \cup {o.b}) <= mx
                    ELSE Cardinality(pc[o.v] \cup {o.b}) <= mx

Apply(o) == /\ pv' = IF o.op = "Prevote" THEN [pv EXCEPT ![o.v] = @ \cup {o.b}] ELSE pv
            /\ pc' = IF o.op = "Precommit" THEN [pc EXCEPT ![o.v] = @ \cup {o.b}] ELSE pc
            /\ par' = par

(* model checking: no history *)
StepM(o) == Allowed(o) /\ Apply(o) /\ UNCHANGED <<hist, done>>
NextAll == \E o \in Ops : StepM(o)

(* generation: history with the prescribed observation after the step *)
StepG(o) == /\ ~done /\ Len(hist) < Depth
            /\ Apply(o)
            /\ hist' = Append(IF hist = <<>> THEN <<[o |-> [op |-> "Init", par |-> par, w |-> [v \in Voters |-> W[v]]],
                                                    obs |-> RSObs(par, W, pv, pc)]>> ELSE hist,
                              [o |-> o, obs |-> RSObs(par', W, pv', pc')])
            /\ done' = FALSE
Finish == /\ ~done /\ hist # <<>> /\ Len(hist) >= Depth
          /\ done' = TRUE /\ UNCHANGED <<par, pv, pc, hist>>

(* random single successor; biased towards votes that build supermajorities *)
PickOp ==
  LET Lv == {b \in Blocks : VFChildren(par, b) = {}}
      A == {o \in Ops : Allowed(o) /\ (LeafBias => o.b \in Lv)}
      r == RandomElement({x \in 1..10 : Len(hist) >= 0})  \* state-dependent: not cached as a constant
      fresh == {o \in A : IF o.op = "Prevote" THEN pv[o.v] = {} ELSE pc[o.v] = {}}
      pre == {o \in fresh : o.op = "Prevote"}
      (* with non-uniform weights, half of the draws go to the voters that weigh more than the lightest one *)
      minW == CHOOSE m \in {W[v] : v \in Voters} : \A v \in Voters : m <= W[v]
      heavy == {o \in fresh : W[o.v] > minW}
  IN IF r >= 6 /\ heavy # {} THEN RandomElement(heavy)
     ELSE IF r <= 3 /\ pre # {} THEN RandomElement(pre)
     ELSE IF r <= 7 /\ fresh # {} THEN RandomElement(fresh)
     ELSE IF A # {} THEN RandomElement(A) ELSE RandomElement(Ops)
NextRand == (\E o \in {PickOp} : StepG(o)) \/ Finish

SpecAll == Init /\ [][NextAll]_vars
SpecRand == Init /\ [][NextRand]_vars

Dump == done => PrintT(<<"TRACE", ToJson(hist)>>)

View == <<par, pv, pc>>

--------------------------------------------------------------------------
(* ---- properties of the specification (engine M) ----------------------- *)

TypeOK == /\ VFIsTree(par)
          /\ pv \in [Voters -> SUBSET Blocks]
          /\ pc \in [Voters -> SUBSET Blocks]

(* tolerant vote sets: supermajority blocks form a chain, so g(S) is a     *)
(* definition (paper, Lemma on tolerant sets)                              *)
ChainWhenTolerant ==
  /\ RSTolerant(W, pv) => RSGhostDefined(par, W, pv)
  /\ RSTolerant(W, pc) => RSGhostDefined(par, W, pc)

(* the three formulations of "possible" agree where each is meant to hold: *)
(* the definition (tolerant extension exists), the paper's closed form     *)
(* (n = 3f+1) and the arithmetic of the implementation                     *)
PossibleForms ==
  (RSTolerant(W, pc) /\ RSUnit(W)) =>
    \A b \in Blocks :
       LET p == RSPossible(par, W, pc, b)
       IN /\ p = RSPossibleArith(par, W, pc, b)
          /\ (RSTotal(W) % 3 = 1) => (p = ~RSImpossiblePaper(par, W, pc, b))

(* finalized and estimate lie on the chain of the prevote GHOST; a block   *)
(* finalized in the round is never above the estimate; with fewer than a   *)
(* threshold of precommits every block is still possible when n = 3f+1:    *)
(* estimate = GHOST and the round is not completable (finality-grandpa's   *)
(* early exit); once a threshold of precommits is in, a block nobody voted *)
(* for can never get a supermajority (so only voted blocks matter)         *)
PrecommitSide ==
  (RSTolerant(W, pv) /\ RSTolerant(W, pc)) =>
    LET g == RSGhost(par, W, pv)
        e == RSEstimateG(par, W, g, pc)
        f == RSFinalizedG(par, W, g, pc)
        seen == VFSum(W, RSVoted(pc))
    IN /\ (e # 0 => VFGeq(par, g, e))
       /\ (f # 0 => VFGeq(par, g, f))
       /\ (f # 0 => (e # 0 /\ VFGeq(par, e, f)))
       /\ (g # 0 => e # 0)
       /\ (RSUnit(W) /\ RSTotal(W) % 3 = 1 /\ seen < RSThr(W) /\ g # 0) =>
             (e = g /\ ~RSCompletableG(par, W, g, e, pc))
       /\ (seen >= RSThr(W)) => ~RSPossibleUnseen(W, pc)

(* action properties: growing vote sets only ever                          *)
(*  - add supermajority blocks (GHOSTs move up their chain),               *)
(*  - remove possibilities (impossible stays impossible),                  *)
(*  - raise the finalized block.                                           *)
MonoStep ==
  LET smV == RSSMBlocks(par, W, pv)   smV2 == RSSMBlocks(par', W, pv')
      smC == RSSMBlocks(par, W, pc)   smC2 == RSSMBlocks(par', W, pc')
      g == IF smV = {} THEN 0 ELSE VFTop(par, smV)
      g2 == IF smV2 = {} THEN 0 ELSE VFTop(par, smV2)
      tolV2 == RSTolerant(W, pv')
      tolC2 == RSTolerant(W, pc')
  IN
  /\ smV \subseteq smV2
  /\ smC \subseteq smC2
  /\ (tolV2 /\ g # 0) => VFGeq(par, g2, g)
  /\ tolC2 => \A b \in Blocks : ~RSPossible(par, W, pc, b) => ~RSPossible(par', W, pc', b)
  /\ (tolV2 /\ tolC2 /\ RSFinalizedG(par, W, g, pc) # 0) =>
        VFGeq(par, RSFinalizedG(par', W, g2, pc'), RSFinalizedG(par, W, g, pc))
Monotone == [][MonoStep]_vars
=============================================================================
