----------------------------- MODULE RoundState -----------------------------
(***************************************************************************)
(* C20  "For every block tree and every set of prevotes and precommits     *)
(* imported into a round in any order, the round's prevote GHOST,          *)
(* estimate, finalized block and completability equal the GRANDPA paper    *)
(* definitions over the vote weights.  The vote set may include duplicates *)
(* and equivocations, and an equivocator's weight counts towards every     *)
(* block."                                                                 *)
(*                                                                         *)
(* The definitions below are FUNCTIONS OF THE VOTE SETS (S[v] = set of     *)
(* blocks voter v has voted for in one phase): duplicates vanish and the   *)
(* import order cannot matter by construction.  The state machine imports  *)
(* one vote per step; the conformance harness                              *)
(* (harness/pkg/finality-grandpa/zz_verif_roundstate_test.go) replays the  *)
(* same imports through Round.importPrevote / importPrecommit and compares *)
(* State(), PrecommitGHOST() after EVERY import.                           *)
(*                                                                         *)
(* What the statement does not pin down is flagged, not guessed:           *)
(*  - "the block of highest number with a supermajority" is only a         *)
(*    definition when the supermajority blocks form a chain (always the    *)
(*    case for tolerant vote sets, invariant ChainWhenTolerant); cmpGhost, *)
(*    cmpFin, cmpPcGhost say when the respective value is compared;        *)
(*  - "possible to have a supermajority" quantifies over TOLERANT          *)
(*    extensions of the precommit set, so estimate and completability are  *)
(*    compared (cmpEst) only when the precommits seen are tolerant, the    *)
(*    weights are unit weights (the paper's setting), and either the voter *)
(*    count is 3f+1 or at least a threshold of precommit weight was seen   *)
(*    (for n # 3f+1 the paper's threshold (n+f+1)/2 is not n-f and the     *)
(*    code's early exit "fewer than threshold precommits => estimate is    *)
(*    the GHOST" is not derivable from the definition; invariant           *)
(*    ShortcutExact proves it for n = 3f+1).                               *)
(***************************************************************************)
EXTENDS VoteForest, TLC, Json

CONSTANTS Trees,    \* set of block trees (sequences, see VoteForest)
          Voters,   \* set of voter ids
          W,        \* weight function  Voters -> Nat \ {0}
          MaxPV,    \* bound: distinct prevote targets kept per voter
          MaxPC,    \* bound: distinct precommit targets kept per voter
          Depth     \* behaviour length (generator)

VARIABLES par,   \* the block tree of this behaviour
          pv,    \* prevotes:   [Voters -> SUBSET blocks]
          pc,    \* precommits: [Voters -> SUBSET blocks]
          hist, done

vars == <<par, pv, pc, hist, done>>

--------------------------------------------------------------------------
(* ---- paper definitions (pure; S is one phase's vote function) --------- *)

RSVoted(S) == {v \in DOMAIN S : S[v] # {}}

(* "an equivocator": two different votes in the same phase *)
RSEquiv(S) == {v \in DOMAIN S : Cardinality(S[v]) >= 2}

(* voters counted for block b: "voters who either have a vote for blocks   *)
(* >= B or equivocate in S" -- an equivocator counts towards EVERY block   *)
RSSupp(t, S, b) == {v \in DOMAIN S : v \in RSEquiv(S) \/ \E x \in S[v] : VFGeq(t, x, b)}

RSTotal(w) == VFSum(w, DOMAIN w)
RSThr(w) == VFThreshold(RSTotal(w))
RSFaulty(w) == VFFaulty(RSTotal(w))

(* "S has a supermajority for B" *)
RSHasSM(t, w, S, b) == VFSum(w, RSSupp(t, S, b)) >= RSThr(w)
RSSMBlocks(t, w, S) == {b \in VFBlocks(t) : RSHasSM(t, w, S, b)}

(* "S is tolerant": at most f weight equivocates *)
RSTolerant(w, S) == VFSum(w, RSEquiv(S)) <= RSFaulty(w)

(* g(S): "the block of highest block number such that S has a              *)
(* supermajority for it", 0 = nil                                          *)
RSGhostDefined(t, w, S) == VFIsChain(t, RSSMBlocks(t, w, S))
RSGhost(t, w, S) == LET B == RSSMBlocks(t, w, S) IN IF B = {} THEN 0 ELSE VFTop(t, B)

(* "it is possible for S to have a supermajority for B": some tolerant     *)
(* extension of S has one.  sup = voters already counted for B.  Voters    *)
(* that have not voted may all vote for B; voters that voted elsewhere can *)
(* only be won by equivocating, within the tolerated weight.               *)
RSPossibleSup(w, S, sup) ==
  LET notyet == DOMAIN S \ RSVoted(S)
      other == RSVoted(S) \ sup
  IN \E X \in SUBSET other :
        /\ VFSum(w, RSEquiv(S) \cup X) <= RSFaulty(w)
        /\ VFSum(w, sup \cup notyet \cup X) >= RSThr(w)
RSPossible(t, w, S, b) == RSPossibleSup(w, S, RSSupp(t, S, b))
(* a block nobody has voted for yet (e.g. a child of the GHOST not seen)   *)
RSPossibleUnseen(w, S) == RSPossibleSup(w, S, RSEquiv(S))

(* the paper's closed form (stated for n = 3f+1): impossible iff at least  *)
(* a threshold of voters vote for a block not >= B or equivocate           *)
RSImpossiblePaper(t, w, S, b) ==
  VFSum(w, (RSVoted(S) \ RSSupp(t, S, b)) \cup RSEquiv(S)) >= RSThr(w)

(* the arithmetic used by finality-grandpa (round.go possibleToPrecommit)  *)
RSPossibleArith(t, w, S, b) ==
  LET for == VFSum(w, RSSupp(t, S, b))
      cur == VFSum(w, RSVoted(S))
      add == RSFaulty(w) - VFSum(w, RSEquiv(S))
      rem == RSTotal(w) - cur
      eqv == IF cur - for <= add THEN cur - for ELSE add
  IN for + rem + eqv >= RSThr(w)

(* E: "the last block in the chain with head g(V) for which it is possible *)
(* for C to have a supermajority"                                          *)
RSEstimate(t, w, V, C) ==
  LET g == RSGhost(t, w, V)
  IN IF g = 0 THEN 0
     ELSE LET P == {b \in VFAnc(t, g) : RSPossible(t, w, C, b)}
          IN IF P = {} THEN 0 ELSE VFTop(t, P)

(* finalized in the round: highest block <= g(V) with a precommit          *)
(* supermajority                                                           *)
RSFinalized(t, w, V, C) ==
  LET g == RSGhost(t, w, V)
  IN IF g = 0 THEN 0
     ELSE LET F == VFAnc(t, g) \cap RSSMBlocks(t, w, C)
          IN IF F = {} THEN 0 ELSE VFTop(t, F)

(* "If either E < g(V) or it is impossible for C to have a supermajority   *)
(* for any children of g(V), then the round is completable"                *)
RSCompletable(t, w, V, C) ==
  LET g == RSGhost(t, w, V)
      e == RSEstimate(t, w, V, C)
  IN /\ g # 0 /\ e # 0
     /\ \/ e # g
        \/ /\ ~RSPossibleUnseen(w, C)
           /\ \A c \in VFChildren(t, g) : ~RSPossible(t, w, C, c)

RSUnit(w) == \A v \in DOMAIN w : w[v] = 1

(* when estimate / completability are pinned down by the statement         *)
RSEstPinned(t, w, V, C) ==
  /\ RSGhostDefined(t, w, V) /\ RSTolerant(w, C) /\ RSUnit(w)
  /\ \/ RSTotal(w) % 3 = 1
     \/ VFSum(w, RSVoted(C)) >= RSThr(w)

RSObs(t, w, V, C) ==
  [ghost    |-> RSGhost(t, w, V),
   fin      |-> RSFinalized(t, w, V, C),
   est      |-> RSEstimate(t, w, V, C),
   comp     |-> RSCompletable(t, w, V, C),
   pcghost  |-> RSGhost(t, w, C),
   cmpGhost |-> RSGhostDefined(t, w, V),
   cmpFin   |-> RSGhostDefined(t, w, V) /\ VFIsChain(t, VFAnc(t, RSGhost(t, w, V)) \cap RSSMBlocks(t, w, C)),
   cmpPc    |-> RSGhostDefined(t, w, C),
   cmpEst   |-> RSEstPinned(t, w, V, C),
   tolV     |-> RSTolerant(w, V),
   tolC     |-> RSTolerant(w, C)]

--------------------------------------------------------------------------
(* ---- state machine: one import per step ------------------------------- *)

Blocks == VFBlocks(par)

Init == /\ par \in Trees
        /\ pv = [v \in Voters |-> {}]
        /\ pc = [v \in Voters |-> {}]
        /\ hist = <<>>
        /\ done = FALSE

Ops == {[op |-> "Prevote", v |-> v, b |-> b] : v \in Voters, b \in Blocks}
  \cup {[op |-> "Precommit", v |-> v, b |-> b] : v \in Voters, b \in Blocks}

Allowed(o) == IF o.op = "Prevote" THEN Cardinality(pv[o.v] \cup {o.b}) <= MaxPV
              ELSE Cardinality(pc[o.v] \cup {o.b}) <= MaxPC

Apply(o) == /\ pv' = IF o.op = "Prevote" THEN [pv EXCEPT ![o.v] = @ \cup {o.b}] ELSE pv
            /\ pc' = IF o.op = "Precommit" THEN [pc EXCEPT ![o.v] = @ \cup {o.b}] ELSE pc
            /\ par' = par

(* model checking: no history *)
StepM(o) == Allowed(o) /\ Apply(o) /\ UNCHANGED <<hist, done>>
NextAll == \E o \in Ops : StepM(o)

(* generation: history with the prescribed observation after the step *)
StepG(o) == /\ ~done /\ Len(hist) < Depth
            /\ Apply(o)
            /\ hist' = Append(IF hist = <<>> THEN <<[o |-> [op |-> "Init", par |-> par, w |-> [v \in Voters |-> W[v]]],
                                                    obs |-> RSObs(par, W, pv, pc)]>> ELSE hist,
                              [o |-> o, obs |-> RSObs(par', W, pv', pc')])
            /\ done' = FALSE
Finish == /\ ~done /\ hist # <<>> /\ Len(hist) >= Depth
          /\ done' = TRUE /\ UNCHANGED <<par, pv, pc, hist>>

(* random single successor; biased towards votes that build supermajorities *)
PickOp ==
  LET A == {o \in Ops : Allowed(o)}
      r == RandomElement({x \in 1..10 : Len(hist) >= 0})  \* state-dependent: not cached as a constant
      fresh == {o \in A : IF o.op = "Prevote" THEN pv[o.v] = {} ELSE pc[o.v] = {}}
      pre == {o \in fresh : o.op = "Prevote"}
  IN IF r <= 3 /\ pre # {} THEN RandomElement(pre)
     ELSE IF r <= 7 /\ fresh # {} THEN RandomElement(fresh)
     ELSE IF A # {} THEN RandomElement(A) ELSE RandomElement(Ops)
NextRand == (\E o \in {PickOp} : StepG(o)) \/ Finish

SpecAll == Init /\ [][NextAll]_vars
SpecRand == Init /\ [][NextRand]_vars

Dump == done => PrintT(<<"TRACE", ToJson(hist)>>)

View == <<par, pv, pc>>

--------------------------------------------------------------------------
(* ---- properties of the specification (engine M) ----------------------- *)

TypeOK == /\ VFIsTree(par)
          /\ pv \in [Voters -> SUBSET Blocks]
          /\ pc \in [Voters -> SUBSET Blocks]

(* tolerant vote sets: supermajority blocks form a chain, so g(S) is a     *)
(* definition (paper, Lemma on tolerant sets)                              *)
ChainWhenTolerant ==
  /\ RSTolerant(W, pv) => RSGhostDefined(par, W, pv)
  /\ RSTolerant(W, pc) => RSGhostDefined(par, W, pc)

(* n - floor((n-1)/3) is the paper's (n+f+1)/2 for n = 3f+1 *)
PaperThreshold ==
  (RSUnit(W) /\ RSTotal(W) % 3 = 1) =>
     LET n == RSTotal(W) f == (n - 1) \div 3 IN 2 * RSThr(W) = n + f + 1

(* the three formulations of "possible" agree where each is meant to hold *)
PossibleForms ==
  (RSTolerant(W, pc) /\ RSUnit(W)) =>
    \A b \in Blocks :
       /\ RSPossible(par, W, pc, b) = RSPossibleArith(par, W, pc, b)
       /\ (RSTotal(W) % 3 = 1) => (RSPossible(par, W, pc, b) = ~RSImpossiblePaper(par, W, pc, b))

(* finalized and estimate lie on the chain of the prevote GHOST, and a     *)
(* block finalized in the round is never above the estimate                *)
Ordering ==
  (RSTolerant(W, pv) /\ RSTolerant(W, pc)) =>
    LET g == RSGhost(par, W, pv)
        e == RSEstimate(par, W, pv, pc)
        f == RSFinalized(par, W, pv, pc)
    IN /\ (e # 0 => VFGeq(par, g, e))
       /\ (f # 0 => VFGeq(par, g, f))
       /\ (f # 0 => (e # 0 /\ VFGeq(par, e, f)))
       /\ (g # 0 => e # 0)

(* with fewer than a threshold of precommits, every block is still         *)
(* possible when n = 3f+1: estimate = GHOST and the round is not           *)
(* completable (this is finality-grandpa's early exit)                     *)
ShortcutExact ==
  (RSUnit(W) /\ RSTotal(W) % 3 = 1 /\ RSTolerant(W, pc) /\ RSTolerant(W, pv)
     /\ VFSum(W, RSVoted(pc)) < RSThr(W) /\ RSGhost(par, W, pv) # 0) =>
    /\ RSEstimate(par, W, pv, pc) = RSGhost(par, W, pv)
    /\ ~RSCompletable(par, W, pv, pc)

(* once a threshold of precommits is in, a block nobody voted for can      *)
(* never get a supermajority (so only voted blocks matter)                 *)
UnseenImpossible ==
  (RSTolerant(W, pc) /\ VFSum(W, RSVoted(pc)) >= RSThr(W)) => ~RSPossibleUnseen(W, pc)

(* action properties: growing vote sets only ever                          *)
(*  - add supermajority blocks (GHOSTs move up their chain),               *)
(*  - remove possibilities (impossible stays impossible),                  *)
(*  - raise the finalized block.                                           *)
MonoStep ==
  /\ RSSMBlocks(par, W, pv) \subseteq RSSMBlocks(par', W, pv')
  /\ RSSMBlocks(par, W, pc) \subseteq RSSMBlocks(par', W, pc')
  /\ (RSTolerant(W, pv') /\ RSGhost(par, W, pv) # 0) => VFGeq(par, RSGhost(par', W, pv'), RSGhost(par, W, pv))
  /\ RSTolerant(W, pc') =>
        \A b \in Blocks : ~RSPossible(par, W, pc, b) => ~RSPossible(par', W, pc', b)
  /\ (RSTolerant(W, pv') /\ RSTolerant(W, pc') /\ RSFinalized(par, W, pv, pc) # 0) =>
        VFGeq(par, RSFinalized(par', W, pv', pc'), RSFinalized(par, W, pv, pc))
Monotone == [][MonoStep]_vars
=============================================================================
