SPECIFICATION SpecAll
CONSTANTS
  MaxAdd = 3
  MaxEpoch = 1
  Depth = 3
INVARIANT Dump
CHECK_DEADLOCK FALSE
