SPECIFICATION SpecRand
CONSTANTS
  Keys <- GKeys
  Vals <- GVals
  Prefixes <- GPrefixes
  Limits <- SLimits
  OpKinds <- ReadKinds
  FreezeParents = FALSE
  MaxHandles = 1
  Depth = 24
INVARIANT Dump
CHECK_DEADLOCK FALSE
