-------------------------- MODULE TrieMachine_Gen --------------------------
(* Generator / model-checking constants for TrieMachine (C01, C02, C03).   *)
EXTENDS TrieMachine

AllKinds == {"Put", "Delete", "ClearPrefix", "ClearPrefixLimit", "SetVersion", "Snapshot",
             "Get", "NextKey", "KeysWithPrefix"}
RootKinds == {"Put", "Delete", "SetVersion"}
(* the root sentence over copy-on-write histories: a trie written after it was snapshotted copies its nodes (seed C01d) *)
RootSnapKinds == {"Put", "Delete", "SetVersion", "Snapshot"}
NoSnapshot == AllKinds \ {"Snapshot"}

(* alphabet "short": shared nibble prefixes, a key that is a prefix of     *)
(* others, the empty key, prefixes ending in a zero nibble                 *)
SKeys == { <<>>, <<16>>, <<16, 0>>, <<18>>, <<18, 1>>, <<18, 2>>, <<31>>, <<32>>, <<18, 83>>, <<18, 84>> }
SVals == { <<>>, <<1>>, Rep(31, 5), Rep(32, 7), Rep(33, 9), Rep(40, 3) }
SPrefixes == { <<>>, <<0>>, <<1>>, <<16>>, <<18>>, <<18, 1>>, <<48>>, <<18, 1, 0>>, <<49>>, <<19>>, <<18, 80>>, <<18, 85>>, <<17, 83>> }
SLimits == 0..4

(* alphabet "long": partial keys of 62..66 and 317..320 nibbles (one- and  *)
(* two-byte length continuation in the header), leaf and branch            *)
LKeys == { Rep(31, 17), Rep(32, 17), Rep(33, 17), Rep(32, 17) \o <<1>>,
           Rep(159, 34), Rep(160, 34), Rep(160, 34) \o <<5>>, <<34>> }
LVals == { <<1>>, Rep(33, 9), <<>> }
LPrefixes == { Rep(31, 17), <<34>>, Rep(4, 17) }

(* alphabet "inline": child encodings of 31/32/33 bytes (inline vs hashed  *)
(* child boundary), branch with value and inlined children                 *)
IKeys == { <<1, 1>>, <<1, 2>>, <<1>>, <<1, 1, 1>>, <<2>>, <<1, 16>> }
IVals == { Rep(25, 1), Rep(26, 2), Rep(27, 3), Rep(28, 4), <<>>, <<7>>, Rep(10, 6) }
IPrefixes == { <<1>>, <<1, 1>>, <<>> }

(* alphabet "slots": keys that END at a child slot of a branch whose child continues (a value-holding branch with a partial  *)
(* key, a leaf with a partial key): reads of an absent key that is a strict byte prefix of stored keys, next to a sibling   *)
(* that splits the branch in the middle of the key's last byte (seed C02e)                                                  *)
GKeys == { <<18>>, <<18, 1>>, <<18, 1, 1>>, <<19>>, <<18, 1, 1, 1>>, <<18, 17>> }
GVals == { <<1>>, <<2>> }
GPrefixes == { <<18>>, <<18, 1>>, <<1>> }
ReadKinds == {"Put", "Delete", "Get", "NextKey", "KeysWithPrefix"}

(* alphabet "wide": inlined values (state version 0 inlines every value) whose LENGTH PREFIX changes width: 63/64 bytes     *)
(* (one- to two-byte compact length) and 16383/16384 bytes (two- to four-byte), in a root leaf, a child leaf and a branch    *)
(* value (seed C01e)                                                                                                        *)
WKeys == { <<1>>, <<1, 1>>, <<2>> }
WVals == { <<1>>, Rep(63, 1), Rep(64, 2), Rep(16383, 3), Rep(16384, 4), Rep(20000, 5) }
WPrefixes == { <<1>> }

(* alphabet "nested": value-less branches on three nesting levels (keys only at the leaves), limits that run out inside  *)
(* the last grand-child of the cleared region (seed C02d)                                                               *)
NKeys == { <<17, 17>>, <<17, 33>>, <<17, 34, 17>>, <<17, 34, 33>>, <<17, 34, 34>>, <<17, 34, 33, 1>>, <<34>> }
NVals == { <<1>>, <<2>> }
NPrefixes == { <<17>>, <<17, 34>>, <<17, 32>>, <<>>, <<17, 34, 32>>, <<17, 34, 33>> }
NLimits == 0..6
ClearKinds == {"Put", "Delete", "ClearPrefix", "ClearPrefixLimit"}

(* tiny constants for exhaustive model checking of the specification       *)
MKeys == { <<>>, <<16>>, <<18>>, <<18, 1>>, <<31>> }
MVals == { <<1>>, Rep(33, 9) }
MPrefixes == { <<>>, <<16>>, <<18>>, <<1>> }
MLimits == 0..2
=============================================================================
