SPECIFICATION SpecAll
CONSTANTS
  MaxAdd = 3
  MaxEpoch = 2
  Depth = 3
INVARIANTS TypeOK UniqueOnChain ForkAware Inherit WalkAgrees ObsAgrees
VIEW View
CHECK_DEADLOCK FALSE
