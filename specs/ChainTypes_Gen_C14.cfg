SPECIFICATION CtSpec
CONSTANTS
  Types <- NoTypes
  CaseKinds <- OnlyRt
  Depth = 1
  RandDepth = 1
  TyNames <- C14AllNames
INVARIANT Dump
CHECK_DEADLOCK FALSE
