SPECIFICATION PSpec
CONSTANTS
  PKeys <- PqKeys
  PVals <- PmVals
  PProbe <- PmProbe
  PNum = 0
INVARIANTS Complete Sound
VIEW PView
CHECK_DEADLOCK FALSE
