------------------------------ MODULE Finality ------------------------------
(***************************************************************************)
(* C17 "Finality is monotone and fully discards abandoned forks", stated   *)
(* over the BlockTree state machine (dot/state BlockState.SetFinalisedHash *)
(* = action Finalise; projection StateObs).  Abstract counterparts of the  *)
(* code's stores:                                                          *)
(*   persistent header / hashByNumber rows  = the blocks of chain          *)
(*   BlockState.unfinalisedBlocks           = live \ {root}                *)
(*   Tries.rootToTrie (distinct state root per block) = live               *)
(*   finalisedHash[r, s], highestRoundAndSetID        = rs, root           *)
(* Not constrained (the statement does not pin it down): finalising a      *)
(* known descendant with a set id LOWER than the highest one; the          *)
(* generator never lowers the set id.                                      *)
(***************************************************************************)
EXTENDS BlockTree

ChainSet == FSeqSet(chain)
Unfinalised == live \ {root}
TriesKept == live
Abandoned == Known \ (live \cup ChainSet)

(* "The finalised head only moves to a known descendant of the previous    *)
(* finalised head"                                                         *)
HeadMonotone == [][root' \in FDescSelf(Par, root)]_vars

(* "any other finalisation attempt fails and changes nothing"              *)
FailedChangesNothing ==
  [][(Len(hist') > Len(hist) /\ ~hist'[Len(hist')].res.ok) =>
       <<info, live, root, chain, rs>>' = <<info, live, root, chain, rs>>]_vars
OnlyDescendantsSucceed ==
  [][(Len(hist') > Len(hist) /\ hist'[Len(hist')].o.op = "Finalise") =>
       (hist'[Len(hist')].res.ok <=> hist'[Len(hist')].o.b \in FDescSelf(AllPar, root) \cap live)]_vars

(* "After finalisation every finalised-chain block can be looked up by     *)
(* number from persistent storage": chain is the parent-linked path        *)
(* genesis .. head, chain[i] has number i - 1                              *)
ChainCovers ==
  /\ Len(chain) = Num(root) + 1 /\ chain[1] = 0 /\ chain[Len(chain)] = root
  /\ \A i \in 1..Len(chain) : Num(chain[i]) = i - 1
  /\ \A i \in 2..Len(chain) : info[chain[i]].p = chain[i - 1]
  /\ ChainSet = FAncSelf(AllPar, root)

(* "No block from an abandoned fork can still be retrieved as an           *)
(* unfinalised block or keeps its state trie in memory": abandoned blocks  *)
(* are exactly the known blocks that neither descend from the head nor lie *)
(* on the finalised chain, and none of them is unfinalised / has a trie    *)
Discarded ==
  /\ Abandoned = Known \ (FDescSelf(AllPar, root) \cup FAncSelf(AllPar, root))
  /\ Abandoned \cap Unfinalised = {} /\ Abandoned \cap TriesKept = {}
  /\ Unfinalised = FDesc(AllPar, root)
  /\ TriesKept = FDescSelf(AllPar, root)
  /\ LET so == StateObsOf(live, root, info, chain, rs)
     IN /\ FSeqSet(so.gone) = Abandoned /\ FSeqSet(so.unfin) = Unfinalised
        /\ FSeqSet(so.tries) = TriesKept /\ so.head = root /\ so.chain = chain
=============================================================================
