SPECIFICATION SpecRand
CONSTANTS
  Keys <- SKeys
  Vals <- SVals
  Prefixes <- SPrefixes
  Limits <- SLimits
  OpKinds <- AllKinds
  FreezeParents = FALSE
  MaxHandles = 4
  Depth = 24
INVARIANT Dump
CHECK_DEADLOCK FALSE
