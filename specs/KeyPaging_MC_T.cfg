SPECIFICATION SpecAny
CONSTANTS
  Keys <- TKeys
  Vals <- MVals
  Prefixes <- MPrefixes
  AfterKeys <- MAfter
  Qtys <- MQtys
  OpKinds <- MutKinds
  MaxBlocks = 2
  Depth = 2
INVARIANTS TypeOK PagingLaws PairLaws
VIEW View
CHECK_DEADLOCK FALSE
