SPECIFICATION TraceSpec
CONSTANTS
  NatBase = 32768
CONSTRAINT HighWater
POSTCONDITION Accepted
CHECK_DEADLOCK FALSE
