------------------------- MODULE FinalityFeed_Eval -------------------------
(***************************************************************************)
(* C23, engine V for the finalisation hand-over (FinalityFeed.tla).        *)
(* feed.ndjson holds one line per scenario run on the real                 *)
(* BlockState.SetFinalisedHash -> notifyFinalized -> digest.Handler ->     *)
(* GrandpaState.ApplyScheduledChanges pipeline:                            *)
(*   {"scenario", "n", "maxout", "d": delivered block numbers in order,    *)
(*    "setid": current set id at quiescence, "wantsetid": set id after all *)
(*    scheduled changes whose effective block was finalised}               *)
(* n finalisations of blocks 1..n in order; maxout = the highest number of *)
(* finalisations the driver allowed to be outstanding (issued, not yet     *)
(* applied) at once.  TLC evaluates on every line                          *)
(*   Possible(d, n, maxout)   the outcome is one the implementation model  *)
(*                            (Mode = "gossamer", Cap = 128) can produce   *)
(*                            -- OutcomePossible is a checked invariant of *)
(*                            that model --            else sig .../direct *)
(*   Required(d, n)           every finalisation was applied, in order     *)
(*   setid = wantsetid        the scheduled changes took effect            *)
(*                            else sig .../as-async-feed-design            *)
(***************************************************************************)
EXTENDS FinalityFeedOps, TLC, Json

Cap == 128   \* defaultBufferSize, dot/state/block_notify.go
Possible(d, n, m) == FfPossible(d, n, m, Cap)
Required(d, n) == FfRequired(d, n)
Upto(k) == FfUpto(k)

Trace == ndJsonDeserialize("feed.ndjson")

VARIABLE l
tvars == <<l>>

Report(i, sig, why) == PrintT(<<"VERIF-BAD", ToJson([line |-> i, sig |-> sig, why |-> why])>>)

Defect(e) == IF Len(e.d) < e.n THEN "lost" ELSE IF e.d # Upto(e.n) THEN "reordered" ELSE "none"

Check(i) ==
  LET e == Trace[i] IN
  /\ IF Possible(e.d, e.n, e.maxout) THEN TRUE
     ELSE Report(i, "C23/feed/" \o e.scenario \o "/delivery/direct", "outcome is not a behaviour of the hand-over model")
  /\ IF Possible(e.d, e.n, e.maxout) /\ ~Required(e.d, e.n)
     THEN Report(i, "C23/feed/" \o e.scenario \o "/delivery-" \o Defect(e) \o "/as-async-feed-design", "finalisations were not all applied in order")
     ELSE TRUE
  /\ IF e.setid = e.wantsetid THEN TRUE
     ELSE Report(i, "C23/feed/" \o e.scenario \o "/set-id/" \o (IF Required(e.d, e.n) THEN "direct" ELSE "as-async-feed-design"),
                 "scheduled changes did not take effect")

TInit == l = 1 /\ TLCSet(1, 1) /\ PrintT(<<"VERIF-FAMILY", "FinalityFeed">>)
TNext == l <= Len(Trace) /\ Check(l) /\ l' = l + 1
TraceSpec == TInit /\ [][TNext]_tvars

HighWater == TLCSet(1, IF l > TLCGet(1) THEN l ELSE TLCGet(1))
Accepted == PrintT(<<"VERIF-TRACE", TLCGet(1) - 1, Len(Trace)>>)
=============================================================================
