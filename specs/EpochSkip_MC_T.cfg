SPECIFICATION SpecAll
CONSTANTS
  MaxAdd = 5
  MaxEpoch = 4
  MaxSkip = 2
  Depth = 5
INVARIANTS TypeOK UniqueOnChain ForkAware CompleteChainsServed SameEpochSameData DesignRightOnLinearChains
PROPERTIES VerifierAgreesWithImport UseStable
VIEW View
CHECK_DEADLOCK FALSE
