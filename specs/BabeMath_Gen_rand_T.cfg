SPECIFICATION SpecRand
CONSTANTS
  NatBase = 32768
  GridC = 1
  GridN = 1
  MaxN = 16
  Depth = 30
INVARIANT Dump
CHECK_DEADLOCK FALSE
