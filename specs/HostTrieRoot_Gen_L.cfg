SPECIFICATION SpecRand
CONSTANTS
  Keys <- SKeys
  Vals <- SVals
  Lens <- LLens
  Versions <- SVersions
  Damages <- SDamages
  Depth = 4
INVARIANT Dump
CHECK_DEADLOCK FALSE
