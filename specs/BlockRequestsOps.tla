-------------------------- MODULE BlockRequestsOps --------------------------
(***************************************************************************)
(* C31  Block request planning and serving cover exactly the requested     *)
(* range.  Pure operators (no variables) shared by the model-checked       *)
(* module BlockRequests, the generator BlockRequests_Gen and the trace     *)
(* specification BlockRequests_Trace.                                      *)
(*                                                                         *)
(* Statement, sentence 1 (planning):                                       *)
(*   "The requests planned to sync heights a..b cover every height in      *)
(*    [a, b] exactly once, in ascending order, with no request larger than *)
(*    the protocol maximum."                               -> IsPlan       *)
(* Statement, sentence 2 (serving):                                        *)
(*   "A served response to any request is a gap-free chain starting at the *)
(*    requested block, in the requested direction, no longer than the      *)
(*    requested and protocol maxima, with exactly the requested fields."   *)
(*                                             -> Valid, Acc, FieldsOf     *)
(***************************************************************************)
EXTENDS SyncForest, TLC, Json

MaxResp == 128   \* messages.MaxBlocksInResponse

--------------------------------------------------------------------------
(* ---- planning ---------------------------------------------------------- *)
(* A plan is a sequence of ascending requests [s |-> start number, m |-> max]; *)
(* request i asks for the heights s .. s+m-1.                               *)

Covers(r, h) == r.s <= h /\ h < r.s + r.m

IsPlan(a, b, rs) ==
  /\ \A i \in 1..Len(rs) : rs[i].m >= 0 /\ rs[i].m <= MaxResp           \* "no request larger than the protocol maximum"
  /\ \A h \in a..b : Cardinality({i \in 1..Len(rs) : Covers(rs[i], h)}) = 1  \* "every height in [a, b] exactly once"
  /\ \A i \in 1..Len(rs) : rs[i].m > 0 => (rs[i].s >= a /\ rs[i].s + rs[i].m - 1 <= b)  \* nothing outside [a, b]
  /\ \A i \in 1..(Len(rs) - 1) : rs[i].s <= rs[i + 1].s                 \* "in ascending order"

(* why a plan is not a plan (classifier for the trace verdict) *)
PlanDefect(a, b, rs) ==
  IF \E i \in 1..Len(rs) : rs[i].m > MaxResp THEN "request-over-maximum"
  ELSE IF \E i \in 1..Len(rs) : rs[i].m < 0 THEN "negative-max"
  ELSE IF \E h \in a..b : \A i \in 1..Len(rs) : ~Covers(rs[i], h) THEN "height-not-covered"
  ELSE IF \E h \in a..b : Cardinality({i \in 1..Len(rs) : Covers(rs[i], h)}) > 1 THEN "height-covered-twice"
  ELSE IF \E i \in 1..Len(rs) : rs[i].m > 0 /\ (rs[i].s < a \/ rs[i].s + rs[i].m - 1 > b) THEN "outside-range"
  ELSE IF \E i \in 1..(Len(rs) - 1) : rs[i].s > rs[i + 1].s THEN "not-ascending"
  ELSE "none"

(* the canonical greedy plan: one of the sequences that satisfy IsPlan *)
RECURSIVE Plan(_, _)
Plan(a, b) ==
  IF a > b THEN <<>>
  ELSE LET m == IF b - a + 1 > MaxResp THEN MaxResp ELSE b - a + 1
       IN <<[s |-> a, m |-> m]>> \o Plan(a + m, b)

--------------------------------------------------------------------------
(* ---- serving ----------------------------------------------------------- *)
(* Node view nv = [par, K, best, J]: block tree, the blocks the node knows  *)
(* (finalised chain + unfinalised subtree), its best block (fork choice is  *)
(* C16's business: best is an input here) and the blocks that have a stored *)
(* justification.                                                           *)
(* Request r = [by |-> "num" | "hash", start |-> number or block id (-1 =   *)
(* a hash nobody knows), dir |-> "asc" | "desc", max |-> n (-1 = absent),   *)
(* fields |-> bit mask].  A response is the sequence of block ids served.   *)

Lim(r) == IF r.max < 0 \/ r.max > MaxResp THEN MaxResp ELSE r.max

(* the block with number n on the best chain *)
OnBest(nv, n) == LET d == SFNum(nv.par, nv.best) - n
                 IN IF d < 0 \/ n < 0 THEN {} ELSE {SFUp(nv.par, nv.best, d)}

(* "the requested block" *)
Requested(nv, r) ==
  IF r.by = "hash" THEN {r.start} \cap nv.K ELSE OnBest(nv, r.start)

(* Named deviations of gossamer from the literal statement (modelled, not   *)
(* tolerated silently):                                                     *)
(*  GenesisNeverServed   a by-number request never yields block 0: an       *)
(*       ascending request from number 0 is served from number 1, a         *)
(*       descending response stops at number 1.  (A syncing peer never asks *)
(*       for genesis; `if startBlock == 0 { startBlock = 1 }` is deliberate.)*)
(*  ClampDescendingToBest  a descending by-number request above the best    *)
(*       number is served from the best block.                              *)
GenesisNeverServedStarts(nv, r) ==
  IF r.by = "num" /\ r.start = 0 /\ r.dir = "asc" THEN OnBest(nv, 1) ELSE {}
ClampDescendingToBestStarts(nv, r) ==
  IF r.by = "num" /\ r.dir = "desc" /\ r.start > SFNum(nv.par, nv.best) THEN {nv.best} ELSE {}

Starts(nv, r) == Requested(nv, r) \cup GenesisNeverServedStarts(nv, r) \cup ClampDescendingToBestStarts(nv, r)

(* The statement's predicate on a served response *)
Valid(nv, r, resp) ==
  /\ Len(resp) <= Lim(r)                                  \* "no longer than the requested and protocol maxima"
  /\ SFSeqRange(resp) \subseteq nv.K
  /\ IF r.dir = "asc" THEN SFIsUpChain(nv.par, resp)      \* "a gap-free chain ... in the requested direction"
                      ELSE SFIsDownChain(nv.par, resp)
  /\ Len(resp) > 0 => resp[1] \in Starts(nv, r)           \* "starting at the requested block"

(* a response that could not have been longer: it has Lim blocks, or its    *)
(* last block has no successor in the direction (GenesisNeverServed: number *)
(* 1 counts as the end of a descending response)                            *)
Complete(nv, r, resp) ==
  \/ Len(resp) = Lim(r)
  \/ /\ Len(resp) > 0
     /\ LET l == resp[Len(resp)]
        IN IF r.dir = "asc" THEN SFChildren(nv.par, nv.K, l) = {}
           ELSE SFNum(nv.par, l) <= 1
  \/ Len(resp) = 0 /\ \A s \in Starts(nv, r) : s = 0     \* only genesis was asked for

(* the acceptable responses, constructively *)
AccFrom(nv, r, s) ==
  IF r.dir = "asc" THEN SFUpPaths(nv.par, nv.K, s, Lim(r))
  ELSE LET full == SFDown(nv.par, s, Lim(r))
       IN {full} \cup (IF Len(full) > 0 /\ full[Len(full)] = 0
                       THEN {SubSeq(full, 1, Len(full) - 1)} ELSE {})

Acc(nv, r) == UNION {AccFrom(nv, r, s) : s \in Starts(nv, r)}

(* the node may answer with an error / an empty response *)
MayRefuse(nv, r) ==
  \/ Starts(nv, r) = {}              \* it does not have the requested block
  \/ Lim(r) = 0
  \/ r.fields % 32 = 0               \* no known field requested
  \/ r.by = "num" /\ r.start = 0     \* GenesisNeverServed
  \/ <<>> \in Acc(nv, r)

Bit(f, k) == (f \div k) % 2 = 1

(* "with exactly the requested fields": header = bit 1, body = bit 2,       *)
(* justification = bit 16 (present only where one is stored); receipt (4)   *)
(* and message queue (8) are never stored by this node                      *)
FieldsOf(nv, r, b) == [h |-> Bit(r.fields, 1), b |-> Bit(r.fields, 2), j |-> Bit(r.fields, 16) /\ b \in nv.J]

SetToSeq(S) == LET RECURSIVE f(_)
                   f(T) == IF T = {} THEN <<>> ELSE LET x == CHOOSE y \in T : TRUE IN <<x>> \o f(T \ {x})
               IN f(S)
=============================================================================
