SPECIFICATION SpecRand
CONSTANTS
  Keys <- SKeys
  Vals <- SVals
  Prefixes <- SPrefixes
  Limits <- SLimits
  OpKinds <- RootSnapKinds
  FreezeParents = TRUE
  MaxHandles = 3
  Depth = 24
INVARIANT Dump
CHECK_DEADLOCK FALSE
