SPECIFICATION MSpec
INVARIANTS RtOK DecTotal HdrOK
CHECK_DEADLOCK FALSE
