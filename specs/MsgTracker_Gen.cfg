SPECIFICATION SpecRand
CONSTANTS
  Blocks = {1, 2, 3, 4}
  Auths = {1, 2, 3}
  Cap = 4
  Depth = 40
INVARIANT Dump
CHECK_DEADLOCK FALSE
