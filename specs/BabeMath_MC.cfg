SPECIFICATION MCSpec
CONSTANTS
  NatBase = 4
  MaxV = 90
  W = 6
  MaxC = 5
INVARIANTS NatOps BracketExact FloorAccepted FloorMonotone Saturation Horner SlotBytes
CHECK_DEADLOCK FALSE
