--------------------------- MODULE TrieProof_Gen ---------------------------
(* constants for TrieProof (C05) *)
EXTENDS TrieProof

(* model checking: nested keys with an inlined branch child, one inline and *)
(* one hashed value                                                         *)
PmKeys == { <<18>>, <<18, 1>>, <<18, 2>>, <<31>> }
PmVals == { <<1>>, Rep(33, 9) }
PmProbe == { <<18, 3>>, <<>> }
(* quick tier: three keys *)
PqKeys == { <<18>>, <<18, 1>>, <<18, 2>> }

(* generation: empty key, nested keys, values of 0, 1, 31, 32, 33, 40 bytes *)
PgKeys == { <<>>, <<16>>, <<18>>, <<18, 1>>, <<18, 2>>, <<31>>, <<18, 83>>, <<18, 84>> }
PgVals == { <<>>, <<1>>, Rep(31, 5), Rep(32, 7), Rep(33, 9), Rep(40, 3) }
PgProbe == { <<17>>, <<18, 1, 0>>, <<18, 80>>, <<1>> }
=============================================================================
