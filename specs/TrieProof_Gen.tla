--------------------------- MODULE TrieProof_Gen ---------------------------
(* constants for TrieProof (C05) *)
EXTENDS TrieProof

(* model checking: nested keys with an inlined branch child, one inline and *)
(* one hashed value                                                         *)
PmKeys == { <<18>>, <<18, 1>>, <<18, 2>>, <<31>> }
PmVals == { <<1>>, Rep(33, 9) }
PmProbe == { <<18, 3>>, <<>> }
(* quick tier: three keys *)
PqKeys == { <<18>>, <<18, 1>>, <<18, 2>> }

(* generation: empty key, nested keys, values of 0, 1, 31, 32, 33, 40 bytes *)
PgKeys == { <<>>, <<16>>, <<18>>, <<18, 1>>, <<18, 2>>, <<31>>, <<18, 83>>, <<18, 84>> }
PgVals == { <<>>, <<1>>, Rep(31, 5), Rep(32, 7), Rep(33, 9), Rep(40, 3) }
PgProbe == { <<17>>, <<18, 1, 0>>, <<18, 80>>, <<1>> }
(* boundary alphabet: leaf encodings of exactly 31 / 32 / 33 bytes (a node of exactly 32 bytes *)
(* is stored by hash, so it must be in the proof; one of 31 bytes is inlined in its parent)    *)
PbKeys == { <<18, 52>>, <<34, 52>>, <<18, 83>>, <<18, 84>>, <<31>> }
PbVals == { Rep(27, 2), Rep(28, 8), Rep(29, 4), Rep(30, 6), <<1>> }
PbProbe == { <<18, 53>>, <<35>> }
(* inline alphabet: small values only, keys that share long prefixes: value-less branches, branches with a value and *)
(* leaves that are all INLINED in their parents (encodings below 32 bytes), two and three levels deep (seed C05c)     *)
PiKeys == { <<18>>, <<18, 83>>, <<18, 84>>, <<18, 83, 1>>, <<18, 83, 2>>, <<31>>, <<49, 16>>, <<49, 17>> }
PiVals == { <<>>, <<1>>, <<2, 3>> }
PiProbe == { <<18, 85>>, <<18, 83, 3>>, <<49>>, <<49, 18>> }
=============================================================================
