SPECIFICATION CSpecRun
CONSTANTS
  MaxBlocks = 8
  MaxAnn = 4
  Anns <- CAnns
  Depth = 10
  Record = TRUE
  Policy = "pinned"
  Scripts <- AllScripts
INVARIANT CDump
CHECK_DEADLOCK FALSE
