-------------------------- MODULE GrandpaScenario --------------------------
(***************************************************************************)
(* A hand-written schedule validated against GrandpaProtocol: every step   *)
(* of Scn must be an enabled step of the model (so the scenario is a       *)
(* behaviour of the specification, not an invention of the harness), and   *)
(* the resulting behaviour is printed for replay on the real voters.       *)
(* This is trace validation in the direction "script -> specification".    *)
(***************************************************************************)
EXTENDS GrandpaProtocol

CONSTANT Scn   \* sequence of step descriptors [a, v, b, r, D]

ScnNext ==
  \/ /\ Len(hist) < Len(Scn) /\ ~done
     /\ Exec(Scn[Len(hist) + 1])
     /\ UNCHANGED done
  \/ /\ Len(hist) = Len(Scn) /\ ~done /\ done' = TRUE
     /\ UNCHANGED <<round, stage, head, known, arr, finR, bsHead, pv, pc, epv, epc, sentPV, sentPC, hist>>
ScnSpec == Init /\ [][ScnNext]_vars
(* the whole script was accepted *)
ScnAccepted == done => Len(hist) = Len(Scn)
ScnComplete == <>done
=============================================================================
