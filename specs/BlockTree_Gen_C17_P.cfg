SPECIFICATION SpecPhased
CONSTANTS
  MaxAdd = 4
  Prims <- NoPrims
  Arrivals <- OneArrival
  HashRank <- GHashRank
  FreeIds = FALSE
  OpKinds <- StructKinds
  PhaseAdds = 4
  ObsKind = "state"
  Depth = 5
INVARIANT Dump
CHECK_DEADLOCK FALSE
