SPECIFICATION SpecAll
CONSTANTS
  MaxAdd = 4
  MaxEpoch = 2
  Depth = 4
INVARIANTS TypeOK UniqueOnChain ForkAware Inherit WalkAgrees ObsAgrees
VIEW View
CHECK_DEADLOCK FALSE
