SPECIFICATION SpecRand
CONSTANTS
  Keys <- SKeys
  Vals <- SVals
  Prefixes <- SPrefixes
  AfterKeys <- SAfter
  Qtys <- SQtys
  OpKinds <- AllKinds
  MaxBlocks = 14
  Depth = 30
INVARIANT Dump
CHECK_DEADLOCK FALSE
