SPECIFICATION SpecRand
CONSTANTS
  Keys <- LKeys
  Vals <- LVals
  Prefixes <- LPrefixes
  Limits <- SLimits
  OpKinds <- AllKinds
  FreezeParents = TRUE
  MaxHandles = 4
  Depth = 24
INVARIANT Dump
CHECK_DEADLOCK FALSE
