SPECIFICATION SpecRand
CONSTANTS
  Keys <- IKeys
  Vals <- IVals
  Prefixes <- IPrefixes
  Limits <- SLimits
  OpKinds <- NoSnapshot
  FreezeParents = FALSE
  MaxHandles = 1
  Depth = 24
INVARIANT Dump
CHECK_DEADLOCK FALSE
