--------------------------- MODULE RateLimit_Trace ---------------------------
(***************************************************************************)
(* C35 for the sliding-window rate limiter built on the shared LRU cache   *)
(* (dot/network/ratelimiters/sliding_window.go): each operation is a       *)
(* read-modify-write of one LRU entry (Get, filter, Put), so "concurrent   *)
(* use behaves like some sequential order of the same calls" has to hold   *)
(* for the COMPOSED operations, not only for Get and Put.                  *)
(*                                                                         *)
(* Sequential object (window far longer than a history, fewer ids than the *)
(* cache holds, so nothing expires and nothing is evicted):                *)
(*   n[id] = requests added for id                                         *)
(*   Add(id)        n[id] := n[id] + 1, returns 0                          *)
(*   Exceeded(id)   returns 1 iff n[id] > Max                              *)
(* Trace: {"ev":"reset","max":m} | {"ev":"call","id","op","k"} |           *)
(* {"ev":"ret","id","res"}, stamped by one atomic counter around the real  *)
(* call; accepted iff the calls can be linearised (internal step TLin).    *)
(***************************************************************************)
EXTENDS Integers, Sequences, FiniteSets, TLC, Json

Trace == ndJsonDeserialize("ratelimit.ndjson")

VARIABLES l, max, n, pending, lin
tvars == <<l, max, n, pending, lin>>

Count(k) == IF k \in DOMAIN n THEN n[k] ELSE 0

TInit == l = 1 /\ max = 0 /\ n = <<>> /\ pending = {} /\ lin = {} /\ TLCSet(1, 1)
Ev(e) == l <= Len(Trace) /\ Trace[l].ev = e

TReset == /\ Ev("reset") /\ pending = {} /\ lin = {}
          /\ max' = Trace[l].max /\ n' = <<>> /\ l' = l + 1 /\ UNCHANGED <<pending, lin>>
TCall == /\ Ev("call")
         /\ pending' = pending \cup {[id |-> Trace[l].id, op |-> Trace[l].op, k |-> Trace[l].k]}
         /\ l' = l + 1 /\ UNCHANGED <<max, n, lin>>
TLin == \E p \in pending :
         /\ n' = IF p.op = "Add" THEN (p.k :> (Count(p.k) + 1)) @@ n ELSE n
         /\ lin' = lin \cup {[id |-> p.id, res |-> IF p.op = "Add" THEN 0 ELSE (IF Count(p.k) > max THEN 1 ELSE 0)]}
         /\ pending' = pending \ {p} /\ UNCHANGED <<l, max>>
TRet == /\ Ev("ret")
        /\ \E r \in lin : r.id = Trace[l].id /\ r.res = Trace[l].res /\ lin' = lin \ {r}
        /\ l' = l + 1 /\ UNCHANGED <<max, n, pending>>

TNext == TReset \/ TCall \/ TLin \/ TRet
TraceSpec == TInit /\ [][TNext]_tvars

HighWater == TLCSet(1, IF l > TLCGet(1) THEN l ELSE TLCGet(1))
Accepted == PrintT(<<"VERIF-TRACE", TLCGet(1) - 1, Len(Trace)>>)
=============================================================================
