SPECIFICATION SpecAll
CONSTANTS
  MaxAdd = 4
  Prims <- NoPrims
  Arrivals <- OneArrival
  HashRank <- GHashRank
  FreeIds = FALSE
  OpKinds <- AllKinds
  PhaseAdds = 0
  ObsKind = "none"
  Depth = 6
INVARIANTS TypeOK LiveExact LeavesChildless QueryLaws BestIsBestLeaf ObsAgree ChainCovers Discarded
PROPERTIES PruneExact HeadMonotone FailedChangesNothing OnlyDescendantsSucceed
VIEW View
CHECK_DEADLOCK FALSE
