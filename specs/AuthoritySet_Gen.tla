-------------------------- MODULE AuthoritySet_Gen --------------------------
(* Constants for model checking and behaviour generation of AuthoritySet (C23). *)
EXTENDS AuthoritySet

AnnsOf(Ds, As, Ms) == {NoAnn} \cup {[k |-> "S", d |-> d, a |-> a, m |-> 0] : d \in Ds, a \in As}
                             \cup {[k |-> "F", d |-> d, a |-> a, m |-> m] : d \in Ds, a \in As, m \in Ms}

(* exhaustive model checking: one authority list id per kind is enough for the invariants *)
MAnns == AnnsOf({0, 1, 2}, {1}, {0, 1})
MAnnsBig == AnnsOf({0, 1, 2}, {1}, {0, 1, 2})

(* generation *)
GAnns == AnnsOf({0, 1, 2, 3}, {1, 2, 3}, {0, 1, 2, 3})
=============================================================================
