SPECIFICATION Spec
CONSTANTS
  NB = 3
  RespLen = 2
  MaxDeliver = 3
INVARIANTS TypeOK ParentsFirst NeverTwice OnlyFromValid KnownIsImported
CHECK_DEADLOCK FALSE
