SPECIFICATION SpecDirected
CONSTANTS
  Trees <- GTrees
  VoterLists <- GLists
  Ids <- GIds
  Sigs <- JSigs
  MaxEntries = 6
  CasesPerBehaviour = 1
INVARIANT Dump
CHECK_DEADLOCK FALSE
