SPECIFICATION SpecAll
CONSTANTS
  Blocks = {1, 2, 3}
  Auths = {1, 2}
  Cap = 3
  Depth = 7
INVARIANTS Bounded OneEntryPerKey
PROPERTIES JustAddedIsTracked OldestMakesRoom ResendKeepsPlace DeleteIsPerBlock
VIEW View
CHECK_DEADLOCK FALSE
