SPECIFICATION SpecRand
CONSTANTS
  Trees <- GTreesBushy
  Voters <- V4
  W <- UnitW
  EqV <- V4
  LeafBias = TRUE
  PVUnanimous = FALSE
  MaxPV = 2
  MaxPC = 2
  Depth = 10
INVARIANT Dump
CHECK_DEADLOCK FALSE
