----------------------------- MODULE ScaleCodec -----------------------------
(***************************************************************************)
(* C11 "SCALE encoding round-trips and is canonical" and                   *)
(* C12 "SCALE decoding rejects malformed input safely" for pkg/scale.      *)
(*                                                                         *)
(* The codec is a pair of pure functions (specs/lib/Scale.tla), so a       *)
(* behaviour is a sequence of INDEPENDENT cases:                           *)
(*   [o |-> [op |-> "rt",  t |-> type, v |-> value],                       *)
(*    res |-> [enc |-> ScEnc(t, v)]]                                 (C11) *)
(*     C11: "decoding its encoding gives back an equal value, and the      *)
(*     encoding is byte-identical to the canonical SCALE encoding"         *)
(*   [o |-> [op |-> "dec", t |-> type, b |-> bytes, mut |-> how b was made]*)
(*    res |-> ScDec(t, b)]                                           (C12) *)
(*     C12: "Decoding any byte string into any supported type either fails *)
(*     or returns a value whose canonical encoding is exactly the consumed *)
(*     prefix of the input.  Truncated input always fails and is never     *)
(*     zero-filled, and non-canonical compact integers are rejected."      *)
(* The harness (harness/pkg/scale/zz_verif_scalecodec_test.go) builds the  *)
(* Go type with reflect, drives scale.Marshal / scale.Unmarshal and        *)
(* compares bytes, verdict, value and consumed length.                     *)
(*                                                                         *)
(* Engine M (ScaleCodec_MC.cfg) checks, for every case of the small        *)
(* universe, the laws that make the two properties theorems of Scale.tla:  *)
(* RoundTrip, PrefixFree, SuffixIndependent, DecSound, WidenedRejected.    *)
(***************************************************************************)
EXTENDS Scale, TLC, Json

CONSTANTS Types,      \* finite set of types the cases range over
          CaseKinds,  \* subset of {"rt", "dec"}
          Depth,      \* cases per behaviour
          RandDepth   \* nesting depth of randomly generated types (generator only)

VARIABLES hist, done,
          part    \* the type whose cases this part of the state space enumerates (one initial
                  \* state per type, so that TLC's workers share the exhaustive runs)
vars == <<hist, done, part>>

--------------------------------------------------------------------------
(* ---- representative values ------------------------------------------------*)
ScTake(s, k) == SubSeq(s, 1, IF Len(s) < k THEN Len(s) ELSE k)
ScAt(s, i) == s[((i - 1) % Len(s)) + 1]      \* cyclic pick

(* C11 quantifier: "integers concentrated at every compact-mode boundary   *)
(* (2^6, 2^14, 2^30, and each byte length from 4 to 8)"                    *)
Around(p) == <<BnPred(BnPow2(p)), BnPow2(p), BnSucc(BnPow2(p))>>
CompactVals == << <<>>, <<1>>, <<2>> >> \o Around(6) \o Around(14) \o <<BnPow2(16), BnPow2(24)>> \o Around(30)
               \o Around(32) \o Around(40) \o Around(48) \o Around(56)
               \o <<BnPred(BnPred(BnPow2(64))), BnPred(BnPow2(64))>>
BigVals == CompactVals \o <<BnPow2(64), BnSucc(BnPow2(64)), BnPow2(72), BnPow2(128), BnPow2(535), BnPred(BnPow2(536))>>

FixedVals(n) == << Rep(n, 0), <<1>> \o Rep(n - 1, 0), Rep(n, 255), Rep(n - 1, 0) \o <<128>>,
                   Rep(n - 1, 255) \o <<127>>, [i \in 1..n |-> i] >>

RECURSIVE ScSortKeys(_, _)
ScSortKeys(kt, S) == IF S = {} THEN <<>>
                     ELSE LET mn == CHOOSE x \in S : \A y \in S : x = y \/ ScKeyLess(kt, x, y)
                          IN <<mn>> \o ScSortKeys(kt, S \ {mn})
ScRangeOf(s) == {s[i] : i \in 1..Len(s)}

RECURSIVE ValSeq(_), EnumVals(_, _)
EnumVals(vs, j) ==
  IF j > Len(vs) THEN <<>>
  ELSE LET X == ScTake(ValSeq(vs[j].t), 3)
       IN [q \in 1..Len(X) |-> [i |-> vs[j].i, v |-> X[q]]] \o EnumVals(vs, j + 1)
ValSeq(t) ==
  CASE t.k \in {"u", "i"} -> FixedVals(t.n)
    [] t.k = "u128" -> << Rep(16, 0), <<1>> \o Rep(15, 0), Rep(16, 255), [i \in 1..16 |-> i],
                          Rep(8, 0) \o <<1>> \o Rep(7, 0), Rep(7, 0) \o <<128>> \o Rep(8, 0) >>
    [] t.k = "compact" -> CompactVals
    [] t.k = "bigint" -> BigVals
    [] t.k = "bool" -> <<FALSE, TRUE>>
    [] t.k = "bytes" -> << <<>>, <<0>>, <<1, 2, 3>>, Rep(63, 7), Rep(64, 9) >>
    [] t.k = "str" -> << <<>>, <<97>>, <<104, 101, 108, 108, 111, 44, 32, 119, 195, 182, 114, 108, 100>> >>
    [] t.k = "opt" -> LET X == ScTake(ValSeq(t.t), 6) IN << <<>> >> \o [i \in 1..Len(X) |-> <<X[i]>>]
    [] t.k = "res" -> LET A == ScTake(ValSeq(t.a), 4)
                          B == ScTake(ValSeq(t.b), 4)
                      IN [i \in 1..Len(A) |-> [ok |-> TRUE, v |-> A[i]]] \o [i \in 1..Len(B) |-> [ok |-> FALSE, v |-> B[i]]]
    [] t.k = "enum" -> EnumVals(t.vs, 1)
    [] t.k = "arr" -> LET X == ValSeq(t.t)
                          M == IF Len(X) < 4 THEN Len(X) ELSE 4
                      IN [j \in 1..M |-> [p \in 1..t.n |-> ScAt(X, j + p - 1)]]
    [] t.k = "slice" -> LET X == ValSeq(t.t)
                        IN << <<>>, <<X[1]>>, <<ScAt(X, 2), ScAt(X, 3)>>, <<ScAt(X, 4), ScAt(X, 1), ScAt(X, 5)>>,
                              [p \in 1..64 |-> ScAt(X, p)] >>
    [] t.k = "map" -> LET K == ScSortKeys(t.kt, ScRangeOf(ScTake(ValSeq(t.kt), 6)))
                          V == ValSeq(t.vt)
                      IN << <<>>, << <<K[2], V[1]>> >>, << <<K[1], ScAt(V, 2)>>, <<K[3], ScAt(V, 3)>> >>,
                            << <<K[1], ScAt(V, 3)>>, <<K[2], ScAt(V, 1)>>, <<K[4], ScAt(V, 4)>> >> >>
    [] t.k = "struct" -> LET n == Len(t.fs)
                         IN [j \in 1..5 |-> [f \in 1..n |-> ScAt(ValSeq(t.fs[f]), j + f - 1)]]

--------------------------------------------------------------------------
(* ---- mutations of a canonical encoding (C12 quantifier: "random,        *)
(* truncated and bit-flipped canonical encodings") ---------------------------*)
HasLenPrefix(t) == t.k \in {"bytes", "str", "slice", "map"}
HeadLen(e) == LET m == e[1] % 4 IN IF m = 0 THEN 1 ELSE IF m = 1 THEN 2 ELSE IF m = 2 THEN 4 ELSE 5 + e[1] \div 4

TruncPoints(e) == IF Len(e) <= 24 THEN 0..(Len(e) - 1)
                  ELSE (0..9) \cup {Len(e) - 9, Len(e) - 2, Len(e) - 1} \cup {HeadLen(e) - 1, HeadLen(e), HeadLen(e) + 1}
FlipPos(e) == 1..(IF Len(e) < 6 THEN Len(e) ELSE 6)
FlipVals(b) == {0, 1, 2, 3, 4, 7, 252, 253, 254, 255, (b + 1) % 256, (b + 128) % 256}
(* declared lengths far beyond the input.  Where the code under test is known to allocate *)
(* the declared length up front (byte strings) the executed cases stop at 2^20: touching  *)
(* gigabytes makes the sandbox crawl and the verdict is the same.  Elsewhere up to 2^32-1. *)
SmallHugeHeads == { <<2, 0, 4, 0>>, <<2, 0, 64, 0>> }                                     \* 2^16, 2^20
HugeHeads(t) == IF t.k \in {"bytes", "str"} \/ (t.k = "slice" /\ t.t.k \in {"u", "i"} /\ t.t.n = 1)
                THEN SmallHugeHeads
                ELSE SmallHugeHeads \cup { <<254, 255, 255, 255>>, <<3, 0, 0, 0, 64>>, <<3, 255, 255, 255, 255>> }

(* an uncontrolled mutation that happens to declare more than 2^20 elements is not executed *)
(* (the "hugelen" mutations cover that class with controlled sizes)                         *)
TooBig(t, b) == LET r == ScDec(t, b) IN ~r.ok /\ r.why = "length" /\ (r.n = -1 \/ r.n > 1048576)

Mutations(t, v) ==
  LET e == ScEnc(t, v) IN
    {[mut |-> "trunc", b |-> SubSeq(e, 1, k)] : k \in TruncPoints(e) \cap (0..(Len(e) - 1))}
    \cup {[mut |-> "junk", b |-> e \o <<170>>], [mut |-> "junk", b |-> e \o <<0, 0, 0, 0, 0, 0, 0, 0, 0>>]}
    \cup {m \in UNION {{[mut |-> "flip", b |-> [e EXCEPT ![p] = x]] : x \in FlipVals(e[p]) \ {e[p]}} : p \in FlipPos(e)} :
              ~TooBig(t, m.b)}
    \cup (IF t.k \in {"compact", "bigint"} THEN {[mut |-> "widen", b |-> w] : w \in ScCompactWidened(v)} ELSE {})
    \cup (IF HasLenPrefix(t)
          THEN {[mut |-> "widen", b |-> w \o ScDrop(e, HeadLen(e))] : w \in ScCompactWidened(BnFromInt(Len(v)))}
               \cup {[mut |-> "hugelen", b |-> h \o ScDrop(e, HeadLen(e))] : h \in HugeHeads(t)}
          ELSE {})

--------------------------------------------------------------------------
(* ---- cases ---------------------------------------------------------------*)
(* Cases are enumerated by INDEX into ValSeq: TLC cannot build a set of values of      *)
(* different shapes (e.g. the two payloads of a result), a sequence is fine.          *)
RtCase(t, i) == [op |-> "rt", t |-> t, v |-> ValSeq(t)[i]]
DecCasesOf(t, v) == {[op |-> "dec", t |-> t, b |-> m.b, mut |-> m.mut] : m \in Mutations(t, v)}

DecRes(t, b) == ScDec(t, b)
Result(o) == IF o.op = "rt" THEN [enc |-> ScEnc(o.t, o.v)] ELSE DecRes(o.t, o.b)

--------------------------------------------------------------------------
(* ---- random cases (generator, -simulate).  z is a state-level salt: TLC *)
(* caches constant-level expressions, RandomElement included. ---------------*)
RE(S, z) == RandomElement({x \in S : z >= 0})

Leaves == <<ScU(1), ScU(2), ScU(4), ScU(8), ScI(1), ScI(2), ScI(4), ScI(8), ScU128, ScCompact, ScBigInt,
            ScBool, ScBytes, ScStr>>
EnumA == ScEnum("A", << [i |-> 0, t |-> ScU(1)], [i |-> 1, t |-> ScTuple(<<ScU(2), ScBool>>)],
                        [i |-> 3, t |-> ScBytes], [i |-> 250, t |-> ScCompact] >>)
EnumB == ScEnum("B", << [i |-> 1, t |-> ScU(4)], [i |-> 2, t |-> ScTuple(<<ScOpt(ScU(2))>>)], [i |-> 5, t |-> ScStr] >>)
TagPatterns(n) == CASE n = 1 -> { <<-1>>, <<1>> }
                    [] n = 2 -> { <<-1, -1>>, <<2, 1>>, <<-1, 1>>, <<1, 2>> }
                    [] n = 3 -> { <<-1, -1, -1>>, <<3, 1, 2>>, <<-1, 2, 1>>, <<1, -1, 0>> }
                    [] OTHER -> { <<-1, -1, -1, -1>>, <<4, 3, 2, 1>>, <<2, -1, 1, -1>>, <<10, 7, 8, 9>> }

RECURSIVE RandType(_, _)
RandType(d, z) ==
  IF d = 0 THEN Leaves[RE(1..Len(Leaves), z)]
  ELSE LET c == RE(1..12, z) IN
       CASE c = 1 -> ScOpt(RandType(d - 1, z))
         [] c \in {2, 3} -> ScSlice(RandType(d - 1, z))
         [] c = 4 -> ScArr(RE(1..3, z), RandType(d - 1, z))
         [] c = 5 -> ScMap(RE({ScU(1), ScU(2), ScCompact}, z), RandType(d - 1, z))
         [] c \in {6, 7, 8} -> LET n == RE(1..4, z)
                               IN ScStruct([f \in 1..n |-> RandType(d - 1, z)], RE(TagPatterns(n), z))
         [] c = 9 -> RE({EnumA, EnumB}, z)
         [] OTHER -> Leaves[RE(1..Len(Leaves), z)]
(* a Result carries its payload prototypes in the VALUE on the Go side, so *)
(* it can only stand at the top or directly in a struct field              *)
RandTop(z) ==
  LET c == RE(1..10, z) IN
  IF c = 1 THEN ScRes(RandType(1, z), RandType(1, z))
  ELSE IF c = 2 THEN ScTuple(<<RandType(1, z), ScRes(RandType(0, z), RandType(1, z))>>)
  ELSE RandType(RandDepth, z)

RandNat(maxLen, z) ==   \* canonical BigNat with 0..maxLen digits
  LET n == RE(0..maxLen, z)
  IN IF n = 0 THEN <<>> ELSE [i \in 1..n |-> IF i = n THEN RE(1..255, z) ELSE RE(0..255, z)]

RECURSIVE RandVal(_, _)
RandVal(t, z) ==
  CASE t.k \in {"u", "i"} -> IF RE(1..2, z) = 1 THEN ValSeq(t)[RE(1..6, z)] ELSE [i \in 1..t.n |-> RE(0..255, z)]
    [] t.k = "u128" -> IF RE(1..2, z) = 1 THEN ValSeq(t)[RE(1..6, z)] ELSE [i \in 1..16 |-> RE({0, 1, 127, 128, 255}, z)]
    [] t.k = "compact" -> IF RE(1..2, z) = 1 THEN CompactVals[RE(1..Len(CompactVals), z)] ELSE RandNat(8, z)
    [] t.k = "bigint" -> IF RE(1..2, z) = 1 THEN BigVals[RE(1..Len(BigVals), z)] ELSE RandNat(20, z)
    [] t.k = "bool" -> RE(BOOLEAN, z)
    [] t.k \in {"bytes", "str"} -> LET n == RE({0, 1, 2, 3, 5, 63, 64, 70}, z)
                                   IN IF n = 0 THEN <<>> ELSE [i \in 1..n |-> RE(32..126, z)]
    [] t.k = "opt" -> IF RE(1..3, z) = 1 THEN <<>> ELSE <<RandVal(t.t, z)>>
    [] t.k = "res" -> LET ok == RE(BOOLEAN, z) IN [ok |-> ok, v |-> RandVal(IF ok THEN t.a ELSE t.b, z)]
    [] t.k = "enum" -> LET j == RE(1..Len(t.vs), z) IN [i |-> t.vs[j].i, v |-> RandVal(t.vs[j].t, z)]
    [] t.k = "arr" -> [p \in 1..t.n |-> RandVal(t.t, z)]
    [] t.k = "slice" -> LET n == RE(0..3, z) IN IF n = 0 THEN <<>> ELSE [p \in 1..n |-> RandVal(t.t, z)]
    [] t.k = "map" -> LET K == ScSortKeys(t.kt, RE(SUBSET ScRangeOf(ScTake(ValSeq(t.kt), 4)), z))
                      IN IF K = <<>> THEN <<>> ELSE [p \in 1..Len(K) |-> <<K[p], RandVal(t.vt, z)>>]
    [] t.k = "struct" -> [f \in 1..Len(t.fs) |-> RandVal(t.fs[f], z)]

RandBytes(z) == LET n == RE(0..12, z)
                IN IF n = 0 THEN <<>> ELSE [i \in 1..n |-> IF RE(1..3, z) = 1 THEN RE(0..255, z) ELSE RE({0, 1, 2, 3, 4, 5, 7, 8, 12, 255}, z)]

RandMut0(t, v, e, z) ==
  LET c == RE(1..8, z)
  IN CASE c \in {1, 2} /\ Len(e) > 0 -> [mut |-> "trunc", b |-> SubSeq(e, 1, RE(0..(Len(e) - 1), z))]
       [] c \in {3, 4} /\ Len(e) > 0 -> LET p == RE(1..Len(e), z)
                                            x == RE(FlipVals(e[p]) \cup {RE(0..255, z)}, z)
                                        IN [mut |-> "flip", b |-> [e EXCEPT ![p] = x]]
       [] c = 5 /\ Len(e) > 1 -> LET p == RE(1..Len(e), z)     \* delete one byte
                                 IN [mut |-> "del", b |-> SubSeq(e, 1, p - 1) \o SubSeq(e, p + 1, Len(e))]
       [] c = 6 -> [mut |-> "junk", b |-> e \o RandBytes(z)]
       [] c = 7 -> [mut |-> "rand", b |-> RandBytes(z)]
       [] OTHER -> LET M == Mutations(t, v) IN RE(M, z)
RandMut(t, v, z) ==
  LET e == ScEnc(t, v)
      m == RandMut0(t, v, e, z)
  IN IF m.mut # "hugelen" /\ TooBig(t, m.b) THEN [mut |-> "trunc", b |-> SubSeq(e, 1, Len(e) - 1)] ELSE m

RandCase(z) ==
  LET t == RandTop(z)
      v == RandVal(t, z)
  IN IF "dec" \in CaseKinds /\ ("rt" \notin CaseKinds \/ RE(1..2, z) = 1)
     THEN LET m == RandMut(t, v, z) IN [op |-> "dec", t |-> t, b |-> m.b, mut |-> m.mut]
     ELSE [op |-> "rt", t |-> t, v |-> v]

--------------------------------------------------------------------------
(* ---- behaviours ----------------------------------------------------------*)
Step(o) == /\ ~done
           /\ Len(hist) < Depth
           /\ hist' = Append(hist, [o |-> o, res |-> Result(o)])
           /\ UNCHANGED <<done, part>>
Finish == /\ ~done /\ Len(hist) = Depth /\ done' = TRUE /\ UNCHANGED <<hist, part>>
InitAll == hist = <<>> /\ done = FALSE /\ part \in Types
InitRand == hist = <<>> /\ done = FALSE /\ part = ScBool
(* the guard comes first: TLC would otherwise enumerate the case set in every state *)
NextAll == \/ /\ ~done /\ Len(hist) < Depth
              /\ \E i \in 1..Len(ValSeq(part)) :
                    \/ "rt" \in CaseKinds /\ Step(RtCase(part, i))
                    \/ "dec" \in CaseKinds /\ \E o \in DecCasesOf(part, ValSeq(part)[i]) : Step(o)
           \/ Finish
NextRand == (~done /\ Len(hist) < Depth /\ \E o \in {RandCase(Len(hist))} : Step(o)) \/ Finish
SpecAll == InitAll /\ [][NextAll]_vars
SpecRand == InitRand /\ [][NextRand]_vars
Dump == done => PrintT(<<"TRACE", ToJson(hist)>>)

--------------------------------------------------------------------------
(* ---- laws (engine M): what makes C11 / C12 theorems of Scale.tla ------------*)
(* C11: decoding the encoding gives back an equal value (and consumes it all) *)
RoundTrip(t, v) == LET e == ScEnc(t, v) IN ScSame(ScDec(t, e), v, Len(e))
(* C12: "Truncated input always fails": every strict prefix of an encoding   *)
(* is rejected, and for the reason that the input ended                      *)
PrefixFree(t, v) == LET e == ScEnc(t, v) IN
  \A k \in TruncPoints(e) \cap (0..(Len(e) - 1)) :
     LET r == ScDec(t, SubSeq(e, 1, k)) IN ~r.ok /\ r.why \in {"short", "length"}
(* the consumed prefix does not depend on what follows it *)
SuffixIndependent(t, v) == LET e == ScEnc(t, v) IN ScSame(ScDec(t, e \o <<170, 0, 1>>), v, Len(e))
(* C12: "either fails or returns a value whose canonical encoding is exactly *)
(* the consumed prefix of the input"                                         *)
DecSound(t, b) == LET r == ScDec(t, b) IN r.ok => (r.n <= Len(b) /\ ScEnc(t, r.v) = SubSeq(b, 1, r.n))
(* C12: "non-canonical compact integers are rejected" *)
WidenedRejected(t, v) ==
  t.k \in {"compact", "bigint"} => \A w \in ScCompactWidened(v) : LET r == ScDec(t, w) IN ~r.ok /\ r.why \in {"noncanonical", "range"}
(* the encoder is injective on the value universe of a type (distinct values, distinct bytes) *)
Injective == LET t == part IN \A i, j \in 1..Len(ValSeq(t)) :
               \* (values are only compared when the bytes agree: TLC cannot compare values of different shapes)
               ScEnc(t, ValSeq(t)[i]) = ScEnc(t, ValSeq(t)[j]) => ValSeq(t)[i] = ValSeq(t)[j]
(* tag order: encoding order is a permutation of the declared fields *)
OrderIsPerm == LET t == part IN t.k = "struct" =>
                 LET o == ScFieldOrder(t.tags) IN Len(o) = Len(t.fs) /\ ScRangeOf(o) = 1..Len(t.fs)

CaseLaw(o) == IF o.op = "rt"
              THEN RoundTrip(o.t, o.v) /\ PrefixFree(o.t, o.v) /\ SuffixIndependent(o.t, o.v) /\ WidenedRejected(o.t, o.v)
              ELSE DecSound(o.t, o.b)
Laws == \A i \in 1..Len(hist) : CaseLaw(hist[i].o)
TypeOK == Len(hist) <= Depth /\ done \in BOOLEAN
(* laws of a whole type, evaluated once per type (in its initial state) *)
InitLaws == (hist = <<>> /\ ~done) => (Injective /\ OrderIsPerm)
=============================================================================
