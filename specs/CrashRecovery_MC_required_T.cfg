SPECIFICATION CSpecAll
CONSTANTS
  MaxBlocks = 4
  MaxAnn = 2
  Anns <- CAnns
  Depth = 6
  Record = FALSE
  Policy = "required"
  Scripts = {}
INVARIANTS AlwaysRecoverable QuiescentAgrees
VIEW CView
CHECK_DEADLOCK FALSE
