---------------------------- MODULE EpochLottery ----------------------------
(***************************************************************************)
(* C24 (S6)  "Every claim produced by the node's own slot lottery passes   *)
(* this verification" -- over HISTORIES of epochs.                         *)
(*                                                                         *)
(* BabeVerify.tla decides one (configuration, slot, block) at a time and   *)
(* calls claimSlot with the right epoch.  A running node does not: it      *)
(* derives the epoch index that goes into the VRF transcript and the epoch *)
(* description (authorities, randomness, threshold, allowed slot kinds)    *)
(* from the chain it sits on, in Service.initiateEpoch, and a verifier     *)
(* derives the same two things for an incoming block in                    *)
(* VerificationManager.VerifyBlock -- by different code, from different    *)
(* inputs (best block + epoch being started vs. block + parent).  S6 holds *)
(* iff the two derivations agree on every chain, in particular when whole  *)
(* epochs passed without a block ("skipped epochs"): the description       *)
(* announced for the epoch after the last block governs the epoch that is  *)
(* actually started, but the transcript is bound to the real epoch index.  *)
(*                                                                         *)
(* State                                                                   *)
(*   chain  epochs of the blocks of the (single) chain, block 1 first      *)
(*   gov    gov[e] = id of the description that governs epoch e (defined   *)
(*          for epochs that have a block, and for epoch 0)                 *)
(*   ann    id of the description announced for "the next epoch" by the    *)
(*          first block of the last epoch that has a block                 *)
(*   fresh  next unused description id                                     *)
(* Description ids are abstract; the harness gives each id its own         *)
(* randomness, its own authority order and the configuration CfgOf(id).    *)
(*                                                                         *)
(* One action, Produce(cur): the node starts (or continues) epoch cur on   *)
(* the current best block, runs its lottery over the slots of the epoch,   *)
(* authors a block in a claimed slot; the block is verified and becomes    *)
(* the best block.  Each step is one named critical section of the code:   *)
(*   LotteryView   Service.initiateEpoch -> epochDescriptor{epoch, data}   *)
(*   VerifierView  VerificationManager.VerifyBlock -> newVerifier(epoch,   *)
(*                 getVerifierInfo(epochWhereDataDescriptorIs))            *)
(***************************************************************************)
EXTENDS Integers, Sequences, FiniteSets, TLC, Json

CONSTANTS MaxEpoch,   \* highest epoch index
          MaxSkip,    \* highest number of epochs without a block
          Depth       \* blocks per behaviour

VARIABLES chain, gov, ann, fresh, hist, done
vars == <<chain, gov, ann, fresh, hist, done>>

Cfgs == <<"primary", "plain", "vrf">>
CfgOf(id) == Cfgs[(id % 3) + 1]

Genesis == chain = <<>>
Last == IF Genesis THEN -1 ELSE chain[Len(chain)]

(* the epochs the node can start on the current best block *)
Startable == IF Genesis THEN {0} ELSE {e \in Last..(Last + 1 + MaxSkip) : e <= MaxEpoch}

(* ---- Service.initiateEpoch(cur) on best block in epoch Last ---------- *)
(* genesis best block: the description stored for cur; skipped: the one    *)
(* announced for Last + 1; otherwise the one stored for cur, which is the  *)
(* governing one of a running epoch or the announced one of the next.      *)
Stored(e) == IF e \in DOMAIN gov THEN gov[e] ELSE IF ~Genesis /\ e = Last + 1 THEN ann ELSE -1
LotterySkipped(cur) == ~Genesis /\ cur > Last + 1
LotteryView(cur) == [te |-> cur, data |-> IF LotterySkipped(cur) THEN Stored(Last + 1) ELSE Stored(cur)]

(* ---- VerificationManager.VerifyBlock(block in epoch be, parent in pe) - *)
VerifierView(be, pe) ==
  [te |-> be, data |-> IF pe # -1 /\ be > pe + 1 THEN Stored(pe + 1) ELSE Stored(be)]

Produce(cur) ==
  /\ ~done /\ Len(hist) < Depth /\ cur \in Startable
  /\ LET lv == LotteryView(cur)
         vv == VerifierView(cur, Last)
         newEpoch == cur # Last
     IN /\ chain' = Append(chain, cur)
        /\ gov' = IF newEpoch /\ cur \notin DOMAIN gov THEN (cur :> lv.data) @@ gov ELSE gov
        /\ ann' = IF newEpoch \/ Genesis THEN fresh ELSE ann
        /\ fresh' = IF newEpoch \/ Genesis THEN fresh + 1 ELSE fresh
        /\ hist' = Append(hist, [o |-> [op |-> "Produce", cur |-> cur, last |-> Last],
                                 res |-> [lottery |-> lv, verifier |-> vv, cfg |-> CfgOf(lv.data),
                                          skipped |-> LotterySkipped(cur), announces |-> IF newEpoch \/ Genesis THEN fresh ELSE -1]])
  /\ UNCHANGED done

Finish == /\ ~done /\ (Len(hist) >= Depth \/ Startable = {})
          /\ done' = TRUE /\ UNCHANGED <<chain, gov, ann, fresh, hist>>

Init == chain = <<>> /\ gov = (0 :> 0) /\ ann = -1 /\ fresh = 1 /\ hist = <<>> /\ done = FALSE
Next == (\E cur \in 0..MaxEpoch : Produce(cur)) \/ Finish
SpecAll == Init /\ [][Next]_vars

----------------------------------------------------------------------------
TypeOK == /\ \A i \in 1..Len(chain) : chain[i] \in 0..MaxEpoch
          /\ \A i \in 1..(Len(chain) - 1) : chain[i] <= chain[i + 1]
          /\ DOMAIN gov \subseteq 0..MaxEpoch

(* (S6) lottery and verifier bind the same epoch index into the transcript and use the same      *)
(* description, which exists, on every step of every history                                       *)
LotteryMatchesVerifier ==
  \A i \in 1..Len(hist) : /\ hist[i].res.lottery = hist[i].res.verifier
                          /\ hist[i].res.lottery.data >= 0
                          /\ hist[i].res.lottery.te = hist[i].o.cur

(* the transcript epoch is the epoch of the block's slot, never the epoch the description was      *)
(* announced for; they differ exactly after skipped epochs                                          *)
SkippedUsesAnnounced ==
  \A i \in 1..Len(hist) :
     hist[i].res.skipped => (hist[i].res.lottery.data # -1 /\ hist[i].o.cur > hist[i].o.last + 1)

(* every epoch with a block is governed by exactly one description for good *)
GovStable == [][\A e \in DOMAIN gov : e \in DOMAIN gov' /\ gov'[e] = gov[e]]_vars

(* descriptions are used in the order they were announced, none twice for different epochs *)
GovInjective == \A e1, e2 \in DOMAIN gov : gov[e1] = gov[e2] => e1 = e2

Dump == done => PrintT(<<"TRACE", ToJson(hist)>>)
=============================================================================
