--------------------------- MODULE RoundState_Gen ---------------------------
(* Constants for model checking and behaviour generation of RoundState (C20). *)
EXTENDS RoundState

UnitW == [v \in Voters |-> 1]
SymRest == Permutations(Voters \ EqV)
SymEq == Permutations(EqV) \cup Permutations(Voters \ EqV)
ASSUME PaperThreshold4 == LET n == 4 f == 1 IN 2 * VFThreshold(n) = n + f + 1
ASSUME PaperThreshold7 == LET n == 7 f == 2 IN 2 * VFThreshold(n) = n + f + 1
ASSUME PaperThreshold1 == 2 * VFThreshold(1) = 1 + 0 + 1

(* exhaustive model checking: every tree with 3 blocks (chain, fork) *)
MTrees3 == VFAllTrees(3)
(* every tree with 4 blocks *)
MTrees4 == VFAllTrees(4)
MTrees == UNION {VFAllTrees(n) : n \in 1..4}

(* generation: every tree with 2..6 blocks, plus deeper hand-made shapes  *)
(* (long edges exercise the vote graph's compressed ancestry)             *)
GTreesSmall == UNION {VFAllTrees(n) : n \in 2..6}
GTreesDeep == { <<0, 1, 2, 3, 4, 3, 6>>,        \* chain with a late fork
                <<0, 1, 2, 2, 3, 4, 5, 6>>,     \* two long branches
                <<0, 1, 1, 2, 3, 4, 5>>,        \* early fork, long arms
                <<0, 1, 2, 3, 3, 4, 4, 5>>,     \* fork above a stem, second fork on one arm
                <<0, 1, 2, 3, 4, 5, 6>> }       \* plain chain
GTrees == GTreesSmall \cup GTreesDeep
(* bushy trees: at least three leaves among 6 blocks (several descendant vote-nodes under *)
(* one node, siblings below an unvoted intermediate block: the vote graph's merge points)  *)
BLeaves(t) == {b \in 1..Len(t) : \A c \in 1..Len(t) : t[c] # b}
GTreesBushy == {t \in VFAllTrees(6) : Cardinality(BLeaves(t)) >= 3}

V3 == 1..3
V4 == 1..4
V7 == 1..7
(* weighted voters: GHOSTs and finalized are compared, estimate is not    *)
V5 == 1..5
WMixed == [v \in V5 |-> IF v = 1 THEN 3 ELSE IF v = 2 THEN 2 ELSE 1]
(* more voters than one 64-bit word of the implementation's vote bitfield holds (2 bits per voter), the weight on the *)
(* last two (seed C20d): 32 voters of weight 1, two of weight 50                                                        *)
V34 == 1..34
W34 == [v \in V34 |-> IF v >= 33 THEN 50 ELSE 1]
VHeavy == {33, 34}
=============================================================================
