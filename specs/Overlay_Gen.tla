---------------------------- MODULE Overlay_Gen ----------------------------
(* Generator / model-checking constants for Overlay (C08).                 *)
EXTENDS Overlay

AllKinds == {"Start", "Commit", "Rollback", "Put", "Delete", "ClearPrefix", "ClearPrefixLimit",
             "CSet", "CClear", "CClearPrefix", "CClearPrefixLimit", "DeleteChild", "DeleteChildAll", "DeleteChildLimit",
             "Get", "NextKey", "CGet", "CNextKey", "CKeys"}
NoLimitKinds == AllKinds \ {"ClearPrefixLimit", "CClearPrefixLimit", "DeleteChildLimit"}
MainOnlyKinds == {"Start", "Commit", "Rollback", "Put", "Delete", "ClearPrefix", "ClearPrefixLimit", "Get", "NextKey"}

(* alphabet "collide": main key "A" is also the name of a child trie, "A"  *)
(* is a cleared prefix and a prefix of other keys ("AB", "AC"); child keys *)
(* repeat the pattern.  No key is empty and no prefix ends in a zero       *)
(* nibble (those belong to C02's recorded findings); everything is above   *)
(* ":" so that ":child_storage:default:" keys never fall in a probed range.*)
(* The two child tries draw values from disjoint sets (two child tries     *)
(* with EQUAL contents are exercised by the "alias" alphabet only).        *)
SMainKeys == { <<65>>, <<65, 66>>, <<65, 67>>, <<66>> }
SMainVals == { <<1>>, <<2>>, Rep(33, 9) }
SMainPrefixes == { <<65>>, <<65, 66>>, <<66>>, <<67>> }
SMainProbes == { <<65, 65>>, <<67>> }
SChildNames == { <<65>>, <<67>> }
SChildKeys == { <<65>>, <<65, 66>>, <<68>> }
SChildVals == [c \in SChildNames |-> IF c = <<65>> THEN { <<1>>, <<2>> } ELSE { <<3>>, <<4>> }]
SChildPrefixes == { <<65>>, <<68>>, <<69>> }
SLimits == 1..3

(* alphabet "alias": both child tries can hold identical contents *)
AChildVals == [c \in SChildNames |-> { <<1>>, <<2>> }]

(* tiny constants for exhaustive model checking *)
MMainKeys == { <<65>>, <<65, 66>> }
MMainVals == { <<1>> }
MMainPrefixes == { <<65>> }
MMainProbes == { }
MChildNames == { <<65>> }
MChildKeys == { <<65>>, <<65, 66>> }
MChildVals == [c \in MChildNames |-> { <<1>> }]
MChildPrefixes == { <<65>> }
MLimits == 1..1
=============================================================================
