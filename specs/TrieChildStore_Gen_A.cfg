SPECIFICATION CSpecRand
CONSTANTS
  CsKeys <- CgKeys
  CsVals <- CgVals
  CsProbe <- CgProbe
  CsNames <- CgNames
  CsCKeys <- CgCKeys
  CsCVals <- CgCVals
  CsCProbe <- CgCProbe
  CsSetSeq <- CgSetSeq
  CsOpKinds <- CcAllKinds
  CsV1 = FALSE
  CsMaxCommits = 1000
  CsDepth = 30
INVARIANT CDump
CHECK_DEADLOCK FALSE
