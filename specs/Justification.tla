---------------------------- MODULE Justification ----------------------------
(***************************************************************************)
(* C19  "A GRANDPA justification for a target is accepted iff its          *)
(* precommits, from distinct set members with valid signatures for the     *)
(* given round and set, reach supermajority weight on the target or its    *)
(* descendants, the precommit GHOST is the target, and the supplied        *)
(* ancestry headers connect every precommit to the lowest one with none    *)
(* left unused.  The verdict does not depend on precommit order or on the  *)
(* integer width of block numbers, and a voter listed several times has    *)
(* its weights summed."                                                    *)
(*                                                                         *)
(* A case is a record                                                      *)
(*   t       block tree (VoteForest)                                       *)
(*   voters  sequence of <<id, weight>>, an id may be listed several times *)
(*   es      SET of precommit entries [id, b, sig]: sig \in {"ok","bad"},  *)
(*           id possibly not a member.  The verdict is a function of this  *)
(*           SET, never of a list: order independence and independence of  *)
(*           the number width are theorems by construction; the harness    *)
(*           realises every case in many orders, with repeated entries,    *)
(*           and with 32- and 64-bit numbers.                              *)
(*   hs      set of blocks whose headers are supplied as ancestry          *)
(*   target  the block the justification claims to finalise                *)
(*                                                                         *)
(* Two strengths, to stay inside what the statement pins down:             *)
(*   JSound    must hold whenever the code ACCEPTS (any case);             *)
(*   JComplete when it holds the code MUST accept; it is only defined on   *)
(*             "pure" cases (every entry a valid-signature member, and     *)
(*             equivocating weight tolerated): whether one extra           *)
(*             bad-signature or outsider entry spoils an otherwise         *)
(*             sufficient justification is not fixed by the statement.     *)
(***************************************************************************)
EXTENDS GrandpaVotes, TLC, Json

CONSTANTS Trees, VoterLists, Ids, Sigs, MaxEntries, CasesPerBehaviour

VARIABLES cs,    \* model checking: the case under construction
          hist,  \* generation: sequence of cases
          done

vars == <<cs, hist, done>>

--------------------------------------------------------------------------
(* ---- the verdict (pure) ------------------------------------------------ *)

JMembers(voters) == {voters[i][1] : i \in 1..Len(voters)}

(* "a voter listed several times has its weights summed" *)
JWeight(voters) ==
  [m \in JMembers(voters) |->
     VFSum([i \in 1..Len(voters) |-> voters[i][2]], {i \in 1..Len(voters) : voters[i][1] = m})]

(* precommits "from distinct set members with valid signatures" *)
JValid(c) == {e \in c.es : e.sig = "ok" /\ e.id \in JMembers(c.voters)}

(* vote function of the valid entries: member -> set of blocks *)
JVotes(c) == [m \in JMembers(c.voters) |-> {e.b : e \in {x \in JValid(c) : x.id = m}}]

JPure(c) == /\ c.es # {} /\ JValid(c) = c.es
            /\ RSTolerant(JWeight(c.voters), JVotes(c))

(* "reach supermajority weight on the target or its descendants" (a member *)
(* counts once; an equivocating member counts for every block)             *)
JEnough(c) == RSHasSM(c.t, JWeight(c.voters), JVotes(c), c.target)

(* "the precommit GHOST is the target" *)
JGhostIsTarget(c) == RSGhost(c.t, JWeight(c.voters), JVotes(c)) = c.target

(* blocks named by the entries in E *)
JNamed(E) == {e.b : e \in E}

(* "the supplied ancestry headers connect every precommit to the lowest    *)
(* one with none left unused": the lowest precommit target must be unique  *)
(* and an ancestor of every other; the headers needed are exactly the      *)
(* blocks on the routes from each precommit target down to, but excluding, *)
(* the lowest                                                              *)
JLowest(c, E) == VFBottom(c.t, JNamed(E))
JConnected(c, E) == E # {} /\ \A b \in JNamed(E) : VFGeq(c.t, b, JLowest(c, E))
JRoute(c, E) == UNION {VFAnc(c.t, b) \ VFAnc(c.t, JLowest(c, E)) : b \in JNamed(E)}
JAncestryExact(c, E) == JConnected(c, E) /\ c.hs = JRoute(c, E)
(* weaker: every route is covered (extra headers allowed) *)
JAncestryCovers(c, E) == JConnected(c, E) /\ JRoute(c, E) \subseteq c.hs

(* must hold when the code accepts *)
JSound(c) ==
  /\ JEnough(c)
  /\ RSTolerant(JWeight(c.voters), JVotes(c)) => JGhostIsTarget(c)
  /\ JPure(c) => JAncestryExact(c, c.es)

(* when it holds the code must accept *)
JComplete(c) == JPure(c) /\ JEnough(c) /\ JGhostIsTarget(c) /\ JAncestryExact(c, c.es)

(* the part decided by finality-grandpa.ValidateCommit alone (signatures   *)
(* are its caller's business and its Chain knows the whole tree): entries  *)
(* are taken as signed; non-members are ignored                            *)
JCommitEntries(c) == {e \in c.es : e.id \in JMembers(c.voters)}
JCommitCase(c) == [c EXCEPT !.es = {[e EXCEPT !.sig = "ok"] : e \in JCommitEntries(c)}]
JCommitTolerant(c) == RSTolerant(JWeight(c.voters), JVotes(JCommitCase(c)))
JCommitGood(c) == LET d == JCommitCase(c)
                  IN /\ d.es # {} /\ JConnected(d, d.es) /\ JEnough(d) /\ JGhostIsTarget(d)

JVerdict(c) ==
  [sound      |-> JSound(c),
   complete   |-> JComplete(c),
   pure       |-> JPure(c),
   enough     |-> JEnough(c),
   commitGood |-> JCommitGood(c),
   commitTol  |-> JCommitTolerant(c),
   commitEnough |-> JEnough(JCommitCase(c)),
   tolerant   |-> RSTolerant(JWeight(c.voters), JVotes(c)),
   total      |-> RSTotal(JWeight(c.voters)),
   thr        |-> RSThr(JWeight(c.voters))]

--------------------------------------------------------------------------
(* ---- state machine ----------------------------------------------------- *)

EntryUniverse(t) == {[id |-> i, b |-> b, sig |-> s] : i \in Ids, b \in VFBlocks(t), s \in Sigs}

(* model checking: choose the frame, then add entries one at a time *)
Init == /\ \E t \in Trees, vs \in VoterLists :
             \E tg \in VFBlocks(t), hs \in SUBSET VFBlocks(t) :
                cs = [t |-> t, voters |-> vs, es |-> {}, hs |-> hs, target |-> tg]
        /\ hist = <<>> /\ done = FALSE

AddEntry(e) == /\ Cardinality(cs.es) < MaxEntries
               /\ e \notin cs.es
               /\ cs' = [cs EXCEPT !.es = @ \cup {e}]
               /\ UNCHANGED <<hist, done>>
NextAll == \E e \in EntryUniverse(cs.t) : AddEntry(e)

(* generation: one random case per step.  Every RandomElement argument     *)
(* depends on hist so that TLC does not cache the draw as a constant.      *)
RE(S) == RandomElement({x \in S : Len(hist) >= 0})

RECURSIVE RandEntries(_, _, _, _, _)
RandEntries(t, n, near, mem, clean) ==
  IF n = 0 THEN {}
  ELSE RandEntries(t, n - 1, near, mem, clean) \cup
       {[id |-> IF clean \/ RE(1..3) # 1 THEN RE(mem) ELSE RE(Ids),
         b |-> IF RE(1..4) = 1 THEN RE(VFBlocks(t)) ELSE RE(near),
         sig |-> IF clean \/ RE(1..4) # 1 THEN "ok" ELSE RE(Sigs)]}

RandCase ==
  LET t == RE(Trees)
      vs == RE(VoterLists)
      (* one case in three is "leafy": a low target and precommits on childless blocks only, so that fork blocks stay *)
      (* unvoted and a supermajority exists only on a merge point of several leaves (seed C19d)                        *)
      leafy == RE(1..3) = 1
      lv == {b \in VFBlocks(t) : VFChildren(t, b) = {}}
      (* leafy: the target is a block with at least two leaves strictly above it (a merge point) when the tree has one; *)
      (* the precommits name leaves anywhere in the tree                                                                 *)
      merge == {b \in VFBlocks(t) : Cardinality({l \in lv : l # b /\ VFGeq(t, l, b)}) >= 2}
      tg == IF leafy /\ merge # {} THEN RE(merge) ELSE RE(VFBlocks(t))
      (* entries mostly at or above the target so that supermajorities occur; *)
      (* two cases in three use member ids and valid signatures only          *)
      near0 == {b \in VFBlocks(t) : VFGeq(t, b, tg)}
      near == IF leafy THEN (IF RE(1..3) = 1 THEN lv ELSE (IF near0 \cap lv # {} THEN near0 \cap lv ELSE near0)) ELSE near0
      clean == leafy \/ RE(1..3) # 1
      es == RandEntries(t, RE(1..MaxEntries), near, JMembers(vs), clean)
      c0 == [t |-> t, voters |-> vs, es |-> es, hs |-> {}, target |-> tg]
      exact == IF es = {} THEN {} ELSE JRoute(c0, es)
      k == RE(1..8)
      hs == IF k <= 5 THEN exact
            ELSE IF k = 6 /\ exact # {} THEN exact \ {RE(exact)}
            ELSE IF k = 7 THEN exact \cup {RE(VFBlocks(t))}
            ELSE RE(SUBSET VFBlocks(t))
  IN [c0 EXCEPT !.hs = hs]

Gen == /\ ~done /\ Len(hist) < CasesPerBehaviour
       /\ hist' = Append(hist, RandCase)
       /\ UNCHANGED <<cs, done>>
Finish == /\ ~done /\ Len(hist) >= CasesPerBehaviour
          /\ done' = TRUE /\ UNCHANGED <<cs, hist>>
NextRand == Gen \/ Finish

SpecAll == Init /\ [][NextAll]_vars
SpecRand == Init /\ [][NextRand]_vars

(* directed, exhaustive family (seed C19d): the base B with three branches, two of which (P, R) share the fork block *)
(* "heavy" and the third (Q) goes through its sibling "light"; every assignment of the four voters of weights         *)
(* 3, 2, 1, 1 to the six blocks, every target among B, heavy, light, in both id (= hash) orders of heavy and light.   *)
(* One case per behaviour; the harness tries every order of the precommits.                                            *)
(* [t: tree, named: the blocks that receive precommits (B, P, R, Q), tgs: B, heavy, light] *)
DirectedShapes == { [t |-> <<0, 1, 2, 2, 1, 5>>, named |-> {1, 3, 4, 6}, tgs |-> {1, 2, 5}],
                    [t |-> <<0, 1, 1, 3, 3, 2>>, named |-> {1, 4, 5, 6}, tgs |-> {1, 3, 2}] }
DirectedVoters == << <<1, 3>>, <<2, 2>>, <<3, 1>>, <<4, 1>> >>
DirectedCases ==
  UNION {{ LET es == {[id |-> i, b |-> f[i], sig |-> "ok"] : i \in 1..4}
               c0 == [t |-> sh.t, voters |-> DirectedVoters, es |-> es, hs |-> {}, target |-> tg]
           IN [c0 EXCEPT !.hs = JRoute(c0, es)] : f \in [1..4 -> sh.named], tg \in sh.tgs } : sh \in DirectedShapes}
(* second directed family (seed C19b): a two-block chain, four unit voters, every voter precommits A or B with a valid or a *)
(* forged signature; every target                                                                                          *)
ForgedCases ==
  { LET t == <<0, 1>>
        es == {[id |-> i, b |-> f[i][1], sig |-> f[i][2]] : i \in 1..4}
        c0 == [t |-> t, voters |-> << <<1, 1>>, <<2, 1>>, <<3, 1>>, <<4, 1>> >>, es |-> es, hs |-> {}, target |-> tg]
    IN [c0 EXCEPT !.hs = JRoute(c0, es)] : f \in [1..4 -> {1, 2} \X {"ok", "bad"}], tg \in {1, 2} }
AllDirected == DirectedCases \cup ForgedCases

InitDirected == /\ cs = [t |-> <<0>>, voters |-> DirectedVoters, es |-> {}, hs |-> {}, target |-> 1]
                /\ done = FALSE /\ hist \in {<<c>> : c \in AllDirected}
SpecDirected == InitDirected /\ [][Finish]_vars

(* expected verdicts are computed once, when the behaviour is dumped *)
Dump == done => PrintT(<<"TRACE", ToJson([i \in 1..Len(hist) |-> [o |-> hist[i], res |-> JVerdict(hist[i])]])>>)

View == cs

--------------------------------------------------------------------------
(* ---- properties of the specification (engine M) ----------------------- *)

(* the safety core, stated without the GHOST machinery: when a case is     *)
(* sound, the summed weight of the DISTINCT members holding a valid        *)
(* precommit for the target or a descendant, or two different valid        *)
(* precommits, is more than two thirds of the total weight                 *)
SafetyCore ==
  JSound(cs) =>
    LET w == JWeight(cs.voters)
        backers == {m \in JMembers(cs.voters) :
                      \/ \E e \in JValid(cs) : e.id = m /\ VFGeq(cs.t, e.b, cs.target)
                      \/ \E e, f \in JValid(cs) : e.id = m /\ f.id = m /\ e.b # f.b}
    IN 3 * VFSum(w, backers) > 2 * RSTotal(w)

(* complete => sound (the two strengths are nested) *)
Nested == JComplete(cs) => JSound(cs)

(* a repeated id has its weights summed: the total is the sum of the list *)
WeightsSummed ==
  RSTotal(JWeight(cs.voters)) = VFSum([i \in 1..Len(cs.voters) |-> cs.voters[i][2]], 1..Len(cs.voters))

(* bad-signature and outsider entries never help: the verdict on           *)
(* enough-ness is that of the valid entries alone                          *)
InvalidIgnored == JEnough(cs) = JEnough([cs EXCEPT !.es = JValid(cs)])

(* a complete justification names no block below or beside the route to    *)
(* its lowest precommit, and its target carries the supermajority          *)
CompleteShape ==
  JComplete(cs) => /\ VFGeq(cs.t, cs.target, JLowest(cs, cs.es))
                   /\ \A b \in cs.hs : VFGeq(cs.t, b, JLowest(cs, cs.es)) /\ b # JLowest(cs, cs.es)

(* adding a valid member precommit at or above the target never loses the  *)
(* supermajority on the target                                             *)
MonoStep == (JEnough(cs) /\ \E e \in cs'.es \ cs.es : TRUE) => JEnough(cs')
Monotone == [][MonoStep]_vars
=============================================================================
