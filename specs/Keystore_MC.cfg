SPECIFICATION SpecCases
CONSTANTS
  Bits <- Bits07
  Quick = TRUE
INVARIANTS TypeOK RoundTrip TamperEvident MutationsChange ShortRejected
CHECK_DEADLOCK FALSE
