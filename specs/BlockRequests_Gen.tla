-------------------------- MODULE BlockRequests_Gen --------------------------
(***************************************************************************)
(* C31, engine G: generator of serving scenarios.  One behaviour = one     *)
(* random block tree (optionally on top of a long linear trunk, so that    *)
(* the 128-block protocol maximum is reached), a finalised block, the set  *)
(* of blocks with a stored justification and NReq random requests.  At the *)
(* end the expectation of every request is computed once: for every        *)
(* possible best block (deepest leaves; fork choice is C16's business) the *)
(* set Acc of acceptable responses and whether the node may refuse.        *)
(***************************************************************************)
EXTENDS BlockRequestsOps

CONSTANTS Trunk,    \* length of the initial linear chain
          NBlocks,  \* random blocks added on top
          NReq,     \* requests per behaviour
          TipW      \* of 4: how often a new block extends the newest block

VARIABLES par, fin, jm, top, reqs, done
vars == <<par, fin, jm, top, reqs, done>>

Init == /\ par = [i \in 1..Trunk |-> i - 1]
        /\ fin = -1 /\ jm = 0 /\ top = 0 /\ reqs = <<>> /\ done = FALSE

(* RandomElement arguments mention a variable so that TLC does not cache them *)
Z == 0 * Len(par) + 0 * Len(reqs)

AddBlock ==
  /\ Len(par) < Trunk + NBlocks
  /\ LET n == Len(par)
         w == RandomElement(1..(4 + Z))
         p == IF w <= TipW THEN n
              ELSE IF w = 3 THEN RandomElement((IF n > 3 THEN n - 3 ELSE 0)..n)
              ELSE RandomElement(0..n)
     IN par' = Append(par, p)
  /\ UNCHANGED <<fin, jm, top, reqs, done>>

PickFin ==
  /\ Len(par) = Trunk + NBlocks /\ fin = -1
  /\ fin' = (IF RandomElement(1..(2 + Z)) = 1 THEN 0 ELSE RandomElement(0..Len(par)))
  /\ jm' = RandomElement(0..(2 + Z))
  /\ top' = (LET K == SFKnown(par, fin') IN SFNum(par, CHOOSE l \in SFDeepest(par, K) : TRUE))
  /\ UNCHANGED <<par, reqs, done>>

Top == top

NumStarts == {n \in (0..3) \cup (126..131) \cup ((Top - 131)..(Top + 2)) : n >= 0 /\ (Trunk > 0 \/ n <= Top + 2)}
MaxSeq == <<-1, -1, 0, 1, 1, 2, 2, 3, 3, 4, 5, 127, 128, 129, 1000>>
FieldSeq == <<0, 1, 1, 2, 3, 3, 16, 17, 18, 19, 19, 31, 4, 8, 255, 32, 12, 20, 24, 28, 31>>

PickReq ==
  LET byn == RandomElement(1..(2 + Z)) = 1
      st == IF byn THEN RandomElement({n \in NumStarts : Z = 0}) ELSE RandomElement((-1)..(Len(par) + Z))
      d == IF RandomElement(1..(2 + Z)) = 1 THEN "asc" ELSE "desc"
      m == MaxSeq[RandomElement(1..(Len(MaxSeq) + Z))]
      f == FieldSeq[RandomElement(1..(Len(FieldSeq) + Z))]
  IN [by |-> IF byn THEN "num" ELSE "hash", start |-> st, dir |-> d, max |-> m, fields |-> f]

AddReq ==
  /\ fin >= 0 /\ Len(reqs) < NReq
  /\ reqs' = Append(reqs, PickReq)
  /\ UNCHANGED <<par, fin, jm, top, done>>

Finish == /\ ~done /\ Len(reqs) = NReq /\ done' = TRUE /\ UNCHANGED <<par, fin, jm, top, reqs>>

NextRand == AddBlock \/ PickFin \/ AddReq \/ Finish
SpecRand == Init /\ [][NextRand]_vars

Expect ==
  LET K == SFKnown(par, fin)
      J == {b \in K : b % 3 = jm}
      bests == SetToSeq(SFDeepest(par, K))
      E(r) == [i \in 1..Len(bests) |->
                 LET nv == [par |-> par, K |-> K, best |-> bests[i], J |-> J]
                 IN [best |-> bests[i], acc |-> SetToSeq(Acc(nv, r)), refuse |-> MayRefuse(nv, r)]]
      F(r) == [h |-> Bit(r.fields, 1), b |-> Bit(r.fields, 2), rc |-> Bit(r.fields, 4), mq |-> Bit(r.fields, 8), j |-> Bit(r.fields, 16)]
  IN [family |-> "BlockRequests", par |-> par, fin |-> fin, J |-> SetToSeq(J), K |-> SetToSeq(K),
      steps |-> [i \in 1..Len(reqs) |-> [o |-> reqs[i], fl |-> F(reqs[i]), exp |-> E(reqs[i])]]]

Dump == done => PrintT(<<"TRACE", ToJson(Expect)>>)
=============================================================================
