SPECIFICATION SpecRand
CONSTANTS
  NumOrders = 23
  PageUnits = 8192
  MaxPages = 65536
  Inits <- MainInits
  ModelData = FALSE
  AllocFailPoisons <- OnlyTrue
  TopFits <- OnlyTrue
  Depth = 60
INVARIANT Dump
CHECK_DEADLOCK FALSE
