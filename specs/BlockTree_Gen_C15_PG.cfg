SPECIFICATION SpecPhased
CONSTANTS
  MaxAdd = 5
  Prims <- NoPrims
  Arrivals <- OneArrival
  HashRank <- GHashRank
  FreeIds = FALSE
  OpKinds <- StructKinds
  PhaseAdds = 3
  ObsKind = "tree"
  Depth = 6
INVARIANT Dump
CHECK_DEADLOCK FALSE
