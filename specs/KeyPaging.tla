----------------------------- MODULE KeyPaging -----------------------------
(***************************************************************************)
(* C38  Paginated key listing enumerates each matching key exactly once    *)
(* (dot/rpc/modules state.go GetKeysPaged / GetPairs over a real           *)
(* InmemoryStorageState).                                                  *)
(*                                                                         *)
(* Property text and where it lives here:                                  *)
(*  "For every state, key prefix and page size, repeatedly requesting the  *)
(*   page of storage keys after the last key returned enumerates exactly   *)
(*   the keys starting with the prefix, in ascending byte order, each      *)
(*   once."                                                                *)
(*      -> PageOf (one request), PagesAll (the loop a client runs);        *)
(*         PagingLaws states the sentence as an invariant of every state.  *)
(*  "The key/value listing for a prefix returns exactly those keys with    *)
(*   their current values."                                                *)
(*      -> PairsOf; compared as a set of pairs (the statement fixes no     *)
(*         order for the pair listing).                                    *)
(*                                                                         *)
(* A state is selected the way the RPC selects it: no block (= best block) *)
(* or an explicit block of the chain; every Put/Delete is a new block.     *)
(* Page size 0 and after-keys that are not "0x"-prefixed lower-case hex    *)
(* are outside the statement and not generated.                            *)
(***************************************************************************)
EXTENDS RsMaps, TLC, Json

CONSTANTS Keys, Vals, Prefixes, AfterKeys, Qtys, MaxBlocks, Depth, OpKinds

VARIABLES states,  \* states[i] = storage map of block i (1 = genesis); the last one is the best block
          hist, done

vars == <<states, hist, done>>

(* one request: the first q keys with the prefix that are strictly after   *)
(* `after` (hasAfter = FALSE: from the start)                              *)
RECURSIVE FirstN(_, _)
FirstN(S, n) == IF n = 0 \/ S = {} THEN <<>>
                ELSE LET x == LeastOf(S) IN <<x>> \o FirstN(S \ {x}, n - 1)

PageOf(m, p, hasAfter, after, q) ==
  FirstN({k \in RsMatching(m, p) : ~hasAfter \/ LexLess(after, k)}, q)

(* the client loop: request pages, each after the last key of the previous *)
(* one, until a page comes back empty                                      *)
RECURSIVE PagesFrom(_, _, _, _, _)
PagesFrom(m, p, hasAfter, after, q) ==
  LET pg == PageOf(m, p, hasAfter, after, q)
  IN IF pg = <<>> THEN <<>> ELSE <<pg>> \o PagesFrom(m, p, TRUE, pg[Len(pg)], q)
PagesAll(m, p, q) == PagesFrom(m, p, FALSE, <<>>, q)

PairsOf(m, p) == RsEntries(RsRestr(m, RsMatching(m, p)))

RECURSIVE Flat(_)
Flat(ss) == IF ss = <<>> THEN <<>> ELSE ss[1] \o Flat(Tail(ss))

--------------------------------------------------------------------------
Cur == states[Len(states)]
StateAt(b) == IF b = 0 THEN Cur ELSE states[b]
Blocks == 0..Len(states)     \* 0 = "no block given"

Ops == {o \in
       {[op |-> "Put", k |-> k, v |-> v] : k \in {x \in Keys : Len(states) < MaxBlocks}, v \in Vals}
  \cup {[op |-> "Delete", k |-> k] : k \in {x \in Keys : Len(states) < MaxBlocks /\ x # <<>>}}
  \cup {[op |-> "PageAll", b |-> b, p |-> p, q |-> q] : b \in Blocks, p \in Prefixes, q \in Qtys}
  \cup {[op |-> "Page", b |-> b, p |-> p, after |-> a, q |-> q] : b \in Blocks, p \in Prefixes, a \in AfterKeys, q \in Qtys}
  \cup {[op |-> "Pairs", b |-> b, p |-> p] : b \in Blocks, p \in Prefixes}
  : o.op \in OpKinds}

Result(o) ==
  CASE o.op = "PageAll" -> [pages |-> PagesAll(StateAt(o.b), o.p, o.q)]
    [] o.op = "Page" -> [page |-> PageOf(StateAt(o.b), o.p, TRUE, o.after, o.q)]
    [] o.op = "Pairs" -> [pairs |-> PairsOf(StateAt(o.b), o.p)]
    [] OTHER -> [none |-> TRUE]

Apply(o) ==
  CASE o.op = "Put" -> Append(states, RsPut(Cur, o.k, o.v))
    [] o.op = "Delete" -> Append(states, RsDel(Cur, o.k))
    [] OTHER -> states

Step(o) ==
  /\ ~done
  /\ Len(hist) < Depth
  /\ states' = Apply(o)
  /\ hist' = Append(hist, [o |-> o, res |-> Result(o), nblocks |-> Len(states')])
  /\ UNCHANGED done

Finish == /\ ~done /\ Len(hist) = Depth /\ done' = TRUE /\ UNCHANGED <<states, hist>>

Init == states = <<EmptyMap>> /\ hist = <<>> /\ done = FALSE

NextAll == (\E o \in Ops : Step(o)) \/ Finish

Weighted == <<"Put", "Put", "Put", "Put", "Delete", "PageAll", "PageAll", "PageAll", "Page", "Page", "Pairs", "Pairs">>
(* components are drawn one by one (building the whole set Ops at every    *)
(* step is expensive); the argument of RandomElement mentions a variable so *)
(* that it is evaluated afresh at every step                                *)
Pick(S) == RandomElement({x \in S : Len(hist) >= 0})
PickBlock == LET n == Len(states)      \* half of the requests name no block
                 i == Pick(1..(2 * n))
             IN IF i > n THEN 0 ELSE i
PickOp ==
  LET kinds == {i \in 1..Len(Weighted) : Weighted[i] \in OpKinds /\ (Len(states) < MaxBlocks \/ Weighted[i] \notin {"Put", "Delete"})}
      kd == Weighted[Pick(kinds)]
  IN CASE kd = "Put" -> [op |-> "Put", k |-> Pick(Keys), v |-> Pick(Vals)]
       \* the empty key is written but never deleted here: the trie's Delete("") is C02's recorded finding
       [] kd = "Delete" -> [op |-> "Delete", k |-> Pick(Keys \ {<<>>})]
       [] kd = "PageAll" -> [op |-> "PageAll", b |-> PickBlock, p |-> Pick(Prefixes), q |-> Pick(Qtys)]
       [] kd = "Page" -> [op |-> "Page", b |-> PickBlock, p |-> Pick(Prefixes), after |-> Pick(AfterKeys), q |-> Pick(Qtys)]
       [] OTHER -> [op |-> "Pairs", b |-> PickBlock, p |-> Pick(Prefixes)]
NextRand == (\E o \in {PickOp} : Step(o)) \/ Finish

SpecAll == Init /\ [][NextAll]_vars
SpecRand == Init /\ [][NextRand]_vars

Dump == done => PrintT(<<"TRACE", ToJson(hist)>>)

--------------------------------------------------------------------------
(* ---- properties of the specification (engine M) ------------------------ *)

TypeOK == Len(states) \in 1..MaxBlocks /\ \A i \in 1..Len(states) : DOMAIN states[i] \subseteq Keys

IsAscending(s) == \A i \in 1..(Len(s) - 1) : LexLess(s[i], s[i + 1])

(* the statement of C38, for the state of the newest block (every block's  *)
(* state was the newest one when it was created)                           *)
PagingLaws ==
  \A p \in Prefixes : \A q \in Qtys :
    LET m == Cur
        pages == PagesAll(m, p, q)
        all == Flat(pages)
    IN /\ RsSeqToSet(all) = RsMatching(m, p)                 \* exactly the keys with the prefix
       /\ Len(all) = Cardinality(RsMatching(m, p))           \* each once
       /\ IsAscending(all)                                   \* ascending byte order
       /\ \A j \in 1..Len(pages) : Len(pages[j]) \in 1..q
       /\ \A j \in 1..(Len(pages) - 1) : Len(pages[j]) = q   \* only the last page may be short
       /\ \A a \in AfterKeys :                               \* a single request with any after-key
            LET pg == PageOf(m, p, TRUE, a, q)
            IN /\ IsAscending(pg) /\ Len(pg) <= q
               /\ \A j \in 1..Len(pg) : LexLess(a, pg[j]) /\ IsPrefixOf(p, pg[j])
               /\ \A k \in RsMatching(m, p) : (LexLess(a, k) /\ k \notin RsSeqToSet(pg)) =>
                                                 (Len(pg) = q /\ LexLess(pg[q], k))

PairLaws ==
  \A p \in Prefixes :
    LET m == Cur
        pr == PairsOf(m, p)
    IN /\ {pr[j][1] : j \in 1..Len(pr)} = RsMatching(m, p)
       /\ Len(pr) = Cardinality(RsMatching(m, p))
       /\ \A j \in 1..Len(pr) : pr[j][2] = m[pr[j][1]]

View == states
=============================================================================
