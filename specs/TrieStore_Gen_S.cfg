SPECIFICATION SSpecRand
CONSTANTS
  StKeys <- GsKeys
  StVals <- GsVals
  StProbe <- GsProbe
  StOpKinds <- StAllKinds
  StStartV1 = FALSE
  StPrune = {FALSE}
  StMaxCommits = 1000
  StDepth = 30
INVARIANT SDump
CHECK_DEADLOCK FALSE
