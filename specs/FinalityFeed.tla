---------------------------- MODULE FinalityFeed ----------------------------
(***************************************************************************)
(* C23, the hand-over between "a block was finalised" and "its scheduled   *)
(* authority-set change takes effect".                                     *)
(*                                                                         *)
(* The statement: "A scheduled change takes effect when its effective      *)
(* block on the announcing fork is finalised".  In the code the two events *)
(* are different goroutines.  BlockState.SetFinalisedHash calls            *)
(* notifyFinalized, which starts ONE GOROUTINE PER NOTIFICATION that tries *)
(* a non-blocking send on a channel of capacity 128                        *)
(* (dot/state/block_notify.go); digest.Handler.handleBlockFinalisation     *)
(* receives and calls GrandpaState.ApplyScheduledChanges -- the only       *)
(* caller of that function in the node.                                    *)
(*                                                                         *)
(*   Finalise     SetFinalisedHash returns; a sender goroutine exists      *)
(*   Send(n)      the sender of n runs: appended if the channel has room,  *)
(*                otherwise DROPPED (select ... default)                   *)
(*   Consume      the handler takes the head and applies                   *)
(*                                                                         *)
(* Mode = "required": what the statement needs from the hand-over -- every *)
(* finalisation reaches the handler, in order (a sender blocks while the   *)
(* channel is full and senders run in the order they were started).        *)
(* Mode = "gossamer": the implementation -- senders run in any order and   *)
(* never block.  TLC checks InOrderNoLoss for "required", and for          *)
(* "gossamer" the weaker facts the implementation does guarantee, among    *)
(* them the two that the conformance check relies on:                      *)
(*   PromptIsExact      a driver that waits for each delivery before the   *)
(*                      next finalisation sees exact in-order delivery     *)
(*   OutcomePossible    the predicate Possible (evaluated by TLC on        *)
(*                      outcomes recorded from the real code) is true of   *)
(*                      every quiescent state of the model                 *)
(***************************************************************************)
EXTENDS FinalityFeedOps, TLC

CONSTANTS N,      \* finalisations
          Cap,    \* channel capacity (128 in the code)
          Mode    \* "required" | "gossamer"

VARIABLES issued,     \* number of finalisations so far (blocks 1..issued, in order)
          pending,    \* notifications whose sender goroutine has not run yet
          chan,       \* the channel
          delivered,  \* what the handler has applied, in order
          dropped,    \* notifications that found the channel full
          maxOut      \* highest number of notifications outstanding at once (pending + chan), history
vars == <<issued, pending, chan, delivered, dropped, maxOut>>

Min(S) == CHOOSE x \in S : \A y \in S : x <= y
Outstanding == Cardinality(pending) + Len(chan)

Init == issued = 0 /\ pending = {} /\ chan = <<>> /\ delivered = <<>> /\ dropped = {} /\ maxOut = 0

Finalise == /\ issued < N
            /\ issued' = issued + 1 /\ pending' = pending \cup {issued + 1}
            /\ maxOut' = IF Outstanding + 1 > maxOut THEN Outstanding + 1 ELSE maxOut
            /\ UNCHANGED <<chan, delivered, dropped>>

Send(n) == /\ n \in pending
           /\ Mode = "required" => (n = Min(pending) /\ Len(chan) < Cap)
           /\ pending' = pending \ {n}
           /\ IF Len(chan) < Cap THEN chan' = Append(chan, n) /\ UNCHANGED dropped
                                 ELSE dropped' = dropped \cup {n} /\ UNCHANGED chan
           /\ UNCHANGED <<issued, delivered, maxOut>>

Consume == /\ chan # <<>>
           /\ delivered' = Append(delivered, Head(chan)) /\ chan' = Tail(chan)
           /\ UNCHANGED <<issued, pending, dropped, maxOut>>

Next == Finalise \/ (\E n \in pending : Send(n)) \/ Consume
Spec == Init /\ [][Next]_vars /\ WF_vars(Next)

Quiescent == issued = N /\ pending = {} /\ chan = <<>>
Range(s) == FfRange(s)
Upto(k) == FfUpto(k)

(* ---- what the statement needs ---- *)
InOrder == \A i \in 1..Len(delivered) : delivered[i] = i
NoLoss == Quiescent => Len(delivered) = N
InOrderNoLoss == InOrder /\ NoLoss /\ dropped = {}

(* ---- what the implementation guarantees ---- *)
NoDuplicates == \A i, j \in 1..Len(delivered) : i # j => delivered[i] # delivered[j]
OnlyIssued == Range(delivered) \cup Range(chan) \cup pending \cup dropped = 1..issued
ChanBound == Len(chan) <= Cap
Accounted == Cardinality(Range(delivered)) + Len(chan) + Cardinality(pending) + Cardinality(dropped) = issued
(* a notification is dropped only if Cap others were outstanding with it *)
DropsNeedFullChannel == dropped # {} => maxOut > Cap
PromptIsExact == maxOut <= 1 => (InOrder /\ dropped = {})
(* the outcome predicate used on recorded outcomes: delivered sequence d of n finalisations of which at most m were ever outstanding *)
Possible(d, n, m) == FfPossible(d, n, m, Cap)
Required(d, n) == FfRequired(d, n)
OutcomePossible == Quiescent => Possible(delivered, N, maxOut)
RequiredImpliesPossible == Quiescent /\ Required(delivered, N) => Possible(delivered, N, maxOut)
Eventually == <>Quiescent
=============================================================================
