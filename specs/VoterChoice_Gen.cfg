SPECIFICATION SpecRand
CONSTANTS
  Trees <- GTrees
  Ns <- N17
  MaxMsgs = 9
  CasesPerBehaviour = 30
  MHeads = {1}
  MChanges = {0}
INVARIANT Dump
CHECK_DEADLOCK FALSE
