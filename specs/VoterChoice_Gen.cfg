SPECIFICATION SpecRand
CONSTANTS
  Trees <- GTrees
  Ns <- N17
  MaxMsgs = 9
  CasesPerBehaviour = 30
INVARIANT Dump
CHECK_DEADLOCK FALSE
