SPECIFICATION SpecAll
CONSTANTS
  Depth = 1
  Universe = "tiny"
  ByteVals <- BV
INVARIANTS TypeOK Laws
CHECK_DEADLOCK FALSE
