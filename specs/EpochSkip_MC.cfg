SPECIFICATION SpecAll
CONSTANTS
  MaxAdd = 4
  MaxEpoch = 3
  MaxSkip = 1
  Depth = 4
INVARIANTS TypeOK UniqueOnChain ForkAware CompleteChainsServed SameEpochSameData DesignRightOnLinearChains
PROPERTIES VerifierAgreesWithImport UseStable
VIEW View
CHECK_DEADLOCK FALSE
