SPECIFICATION SpecRand
CONSTANTS
  Txs = {1, 2, 3, 4, 5, 6}
  Prios = {1, 2, 3}
  Depth = 40
INVARIANT Dump
CHECK_DEADLOCK FALSE
