SPECIFICATION SpecAll
INVARIANT Dump
CHECK_DEADLOCK FALSE
