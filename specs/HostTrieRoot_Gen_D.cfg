SPECIFICATION SpecAll
CONSTANTS
  Keys <- DKeys
  Vals <- DVals
  Lens <- DLens
  LongLens = {}
  Versions <- DVersions
  Damages = {"none"}
  Depth = 1
INVARIANT Dump
CHECK_DEADLOCK FALSE
