------------------------------ MODULE Overlay ------------------------------
(***************************************************************************)
(* C08  Runtime storage transactions are transparent and roll back exactly *)
(* (lib/runtime/storage: TrieState + storageDiff).                         *)
(*                                                                         *)
(* Property text, sentence by sentence, and where it lives here:           *)
(*  "For every sequence of runtime storage operations on main and child    *)
(*   storage, interleaved with nested start/commit/rollback, every read    *)
(*   observes what Substrate's overlay semantics prescribe."               *)
(*      -> state = backend `base` + stack of overlay diffs (per key        *)
(*         Some(v) / None = Tomb, main and one partial map per child       *)
(*         trie), exactly the shape of sp_state_machine::OverlayedChanges; *)
(*         reads are evaluated on Now == ViewOf(base, Top).                *)
(*  "The operations are get, set, delete, prefix clear with or without a   *)
(*   limit, next-key, child-trie deletion and child key listing."          *)
(*      -> DiffApply / Result, one CASE arm per TrieState method.          *)
(*         Prefix clears and child deletion follow Ext::clear_prefix /     *)
(*         kill_child_storage / limit_remove_from_backend: every OVERLAY   *)
(*         key with the prefix becomes None, then the first `limit`        *)
(*         BACKEND keys with the prefix (ascending) become None (ClearOv). *)
(*  "A rollback restores exactly the state at the matching start"          *)
(*      -> RollbackExact (ghost `saved` = view at each open Start).        *)
(*  "committing the outermost transaction gives the same contents and root *)
(*   as applying the committed operations directly."                       *)
(*      -> ghost `dir` = the same operations applied to plain states with  *)
(*         no overlay; DirectEquiv, CommitTransparent, and the root of the *)
(*         committed state is TrieSpec!Root of TopMap(base).               *)
(*                                                                         *)
(* Left open on purpose (not pinned down by the statement): the numbers    *)
(* returned by limited clears INSIDE a transaction, the order of a child   *)
(* key listing, and error-versus-empty for a child trie that does not      *)
(* exist (an absent child trie IS an empty map here, as in Substrate).     *)
(***************************************************************************)
EXTENDS RsMaps, TLC, Json

CONSTANTS MainKeys,      \* byte-string keys of main storage
          MainVals,
          MainPrefixes,  \* prefixes for main prefix clears
          MainProbes,    \* extra probe keys for Get / NextKey
          ChildNames,    \* child storage keys ("keyToChild"); may intersect MainKeys
          ChildKeys,     \* keys inside a child trie
          ChildVals,     \* function ChildNames -> set of values
          ChildPrefixes,
          Limits,        \* limits tried for limited clears
          MaxNest,       \* bound on transaction nesting
          Depth,         \* behaviour length
          OpKinds,
          EmitObs        \* FALSE: model checking only, observations are not materialised

VARIABLES base,   \* backend: [m |-> map, k |-> [ChildNames -> map]]
          stack,  \* open transactions, innermost last; each a CUMULATIVE diff against base
          saved,  \* ghost: saved[i] = Now when the i-th open transaction was started
          dir,    \* ghost: the operations applied directly to plain states (Len = Nest + 1)
          hist, done

vars == <<base, stack, saved, dir, hist, done>>

Tomb == <<-2>>   \* "None" of the overlay: the key is deleted

EmptyDiff == [m |-> EmptyMap, k |-> [c \in ChildNames |-> EmptyMap]]
EmptyState == [m |-> EmptyMap, k |-> [c \in ChildNames |-> EmptyMap]]

(* a backend map seen through a partial overlay map *)
Over(b, d) ==
  LET dead == {y \in DOMAIN d : d[y] = Tomb}
      live == DOMAIN d \ dead
  IN [x \in (DOMAIN b \cup live) \ dead |-> IF x \in live THEN d[x] ELSE b[x]]

ViewOf(b, d) == [m |-> Over(b.m, d.m), k |-> [c \in ChildNames |-> Over(b.k[c], d.k[c])]]

Nest == Len(stack)
Top == IF stack = <<>> THEN EmptyDiff ELSE stack[Len(stack)]
Now == ViewOf(base, Top)

DSet(d, x, val) == [y \in DOMAIN d \cup {x} |-> IF y = x THEN val ELSE d[y]]

(* Ext::clear_prefix / clear_child_prefix / kill_child_storage on backend   *)
(* map b and overlay map d.  lim < 0: no limit.                             *)
ClearOv(b, d, p, lim) ==
  LET O == {x \in DOMAIN d : IsPrefixOf(p, x)}
      B == RsMatching(b, p)
      Bn == IF lim < 0 THEN B ELSE RsSmallest(B, lim)
      T == O \cup Bn
  IN [y \in DOMAIN d \cup T |-> IF y \in T THEN Tomb ELSE d[y]]

(* the same on a plain map s (no overlay representation): the keys removed  *)
(* from the view are the matching keys that are overlay keys or among the   *)
(* first lim matching backend keys                                          *)
ClearPlain(s, b, d, p, lim) ==
  LET B == RsMatching(b, p)
      Bn == IF lim < 0 THEN B ELSE RsSmallest(B, lim)
      gone == RsMatching(s, p) \cap (DOMAIN d \cup Bn)
  IN RsRestr(s, DOMAIN s \ gone)

DiffApply(o, d) ==
  CASE o.op = "Put" -> [d EXCEPT !.m = DSet(d.m, o.k, o.v)]
    [] o.op = "Delete" -> [d EXCEPT !.m = DSet(d.m, o.k, Tomb)]
    [] o.op = "ClearPrefix" -> [d EXCEPT !.m = ClearOv(base.m, d.m, o.p, -1)]
    [] o.op = "ClearPrefixLimit" -> [d EXCEPT !.m = ClearOv(base.m, d.m, o.p, o.n)]
    [] o.op = "CSet" -> [d EXCEPT !.k[o.c] = DSet(d.k[o.c], o.k, o.v)]
    [] o.op = "CClear" -> [d EXCEPT !.k[o.c] = DSet(d.k[o.c], o.k, Tomb)]
    [] o.op = "CClearPrefix" -> [d EXCEPT !.k[o.c] = ClearOv(base.k[o.c], d.k[o.c], o.p, -1)]
    [] o.op = "CClearPrefixLimit" -> [d EXCEPT !.k[o.c] = ClearOv(base.k[o.c], d.k[o.c], o.p, o.n)]
    [] o.op \in {"DeleteChild", "DeleteChildAll"} -> [d EXCEPT !.k[o.c] = ClearOv(base.k[o.c], d.k[o.c], <<>>, -1)]
    [] o.op = "DeleteChildLimit" -> [d EXCEPT !.k[o.c] = ClearOv(base.k[o.c], d.k[o.c], <<>>, o.n)]
    [] OTHER -> d

(* the operation applied directly to a plain state s; b, d only matter for  *)
(* limited clears (with no open transaction b = s and d is empty, i.e. the  *)
(* n smallest matching keys are removed, as in C02)                         *)
PlainApply(o, s, b, d) ==
  CASE o.op = "Put" -> [s EXCEPT !.m = RsPut(s.m, o.k, o.v)]
    [] o.op = "Delete" -> [s EXCEPT !.m = RsDel(s.m, o.k)]
    [] o.op = "ClearPrefix" -> [s EXCEPT !.m = RsRestr(s.m, DOMAIN s.m \ RsMatching(s.m, o.p))]
    [] o.op = "ClearPrefixLimit" -> [s EXCEPT !.m = ClearPlain(s.m, b.m, d.m, o.p, o.n)]
    [] o.op = "CSet" -> [s EXCEPT !.k[o.c] = RsPut(s.k[o.c], o.k, o.v)]
    [] o.op = "CClear" -> [s EXCEPT !.k[o.c] = RsDel(s.k[o.c], o.k)]
    [] o.op = "CClearPrefix" -> [s EXCEPT !.k[o.c] = RsRestr(s.k[o.c], DOMAIN s.k[o.c] \ RsMatching(s.k[o.c], o.p))]
    [] o.op = "CClearPrefixLimit" -> [s EXCEPT !.k[o.c] = ClearPlain(s.k[o.c], b.k[o.c], d.k[o.c], o.p, o.n)]
    [] o.op \in {"DeleteChild", "DeleteChildAll"} -> [s EXCEPT !.k[o.c] = EmptyMap]
    [] o.op = "DeleteChildLimit" -> [s EXCEPT !.k[o.c] = ClearPlain(s.k[o.c], b.k[o.c], d.k[o.c], <<>>, o.n)]
    [] OTHER -> s

--------------------------------------------------------------------------
(* ---- operations -------------------------------------------------------- *)

MProbe == MainKeys \cup MainProbes
CProbe == ChildKeys \cup ChildPrefixes

TxOps ==
       {[op |-> "Start"] : x \in {y \in {1} : Nest < MaxNest}}
  \cup {[op |-> "Commit"] : x \in {y \in {1} : Nest > 0}}
  \cup {[op |-> "Rollback"] : x \in {y \in {1} : Nest > 0}}

MutOps ==
       {[op |-> "Put", k |-> k, v |-> v] : k \in MainKeys, v \in MainVals}
  \cup {[op |-> "Delete", k |-> k] : k \in MProbe}
  \cup {[op |-> "ClearPrefix", p |-> p] : p \in MainPrefixes}
  \cup {[op |-> "ClearPrefixLimit", p |-> p, n |-> n] : p \in MainPrefixes, n \in Limits}
  \cup UNION {{[op |-> "CSet", c |-> c, k |-> k, v |-> v] : k \in ChildKeys, v \in ChildVals[c]} : c \in ChildNames}
  \cup {[op |-> "CClear", c |-> c, k |-> k] : c \in ChildNames, k \in CProbe}
  \cup {[op |-> "CClearPrefix", c |-> c, p |-> p] : c \in ChildNames, p \in ChildPrefixes}
  \cup {[op |-> "CClearPrefixLimit", c |-> c, p |-> p, n |-> n] : c \in ChildNames, p \in ChildPrefixes, n \in Limits}
  \cup {[op |-> "DeleteChild", c |-> c] : c \in ChildNames}      \* TrieState.DeleteChild (storage_kill version 1)
  \cup {[op |-> "DeleteChildAll", c |-> c] : c \in ChildNames}   \* TrieState.DeleteChildLimit with no limit (version 2, 3)
  \cup {[op |-> "DeleteChildLimit", c |-> c, n |-> n] : c \in ChildNames, n \in Limits}

ReadOps ==
       {[op |-> "Get", k |-> k] : k \in MProbe}
  \cup {[op |-> "NextKey", k |-> k] : k \in MProbe}
  \cup {[op |-> "CGet", c |-> c, k |-> k] : c \in ChildNames, k \in CProbe}
  \cup {[op |-> "CNextKey", c |-> c, k |-> k] : c \in ChildNames, k \in CProbe}
  \cup {[op |-> "CKeys", c |-> c, p |-> p] : c \in ChildNames, p \in ChildPrefixes \cup {<<>>}}

Ops == {o \in TxOps \cup MutOps \cup ReadOps : o.op \in OpKinds}

IsRead(o) == o.op \in {"Get", "NextKey", "CGet", "CNextKey", "CKeys"}
IsTx(o) == o.op \in {"Start", "Commit", "Rollback"}
IsMainMut(o) == o.op \in {"Put", "Delete", "ClearPrefix", "ClearPrefixLimit"}
IsChildMut(o) == ~IsRead(o) /\ ~IsTx(o) /\ ~IsMainMut(o)

(* the value the call returns, from the state BEFORE it.  For limited      *)
(* clears: loops = backend keys visited, all = no backend key is left      *)
(* (KillStorageResult); with no open transaction that is (deleted,         *)
(* allDeleted) of C02.                                                     *)
LimitRes(b, p, n) == LET c == Cardinality(RsMatching(b, p))
                     IN [deleted |-> IF n < c THEN n ELSE c, allDeleted |-> n >= c]
Result(o) ==
  CASE o.op = "Get" -> RsGet(Now.m, o.k)
    [] o.op = "NextKey" -> RsNext(Now.m, o.k)
    [] o.op = "CGet" -> RsGet(Now.k[o.c], o.k)
    [] o.op = "CNextKey" -> RsNext(Now.k[o.c], o.k)
    [] o.op = "CKeys" -> [keys |-> SortedSeq(RsMatching(Now.k[o.c], o.p))]
    [] o.op = "ClearPrefixLimit" -> LimitRes(base.m, o.p, o.n)
    [] o.op = "CClearPrefixLimit" -> LimitRes(base.k[o.c], o.p, o.n)
    [] o.op = "DeleteChildLimit" -> LimitRes(base.k[o.c], <<>>, o.n)
    [] OTHER -> [none |-> TRUE]

Front(s) == SubSeq(s, 1, Len(s) - 1)
Last(s) == s[Len(s)]

Apply(o) ==
  CASE o.op = "Start" ->
         /\ stack' = Append(stack, Top)
         /\ saved' = Append(saved, Now)
         /\ dir' = Append(dir, Last(dir))
         /\ UNCHANGED base
    [] o.op = "Rollback" ->
         /\ stack' = Front(stack) /\ saved' = Front(saved) /\ dir' = Front(dir)
         /\ UNCHANGED base
    [] o.op = "Commit" /\ Nest > 1 ->
         /\ stack' = Append(Front(Front(stack)), Top)
         /\ saved' = Front(saved)
         /\ dir' = Append(Front(Front(dir)), Last(dir))
         /\ UNCHANGED base
    [] o.op = "Commit" /\ Nest = 1 ->
         /\ base' = Now
         /\ stack' = <<>> /\ saved' = <<>> /\ dir' = <<Last(dir)>>
    [] ~IsTx(o) /\ Nest = 0 ->
         /\ base' = PlainApply(o, base, base, EmptyDiff)
         /\ dir' = <<PlainApply(o, dir[1], base, EmptyDiff)>>
         /\ UNCHANGED <<stack, saved>>
    [] ~IsTx(o) /\ Nest > 0 ->
         /\ stack' = [stack EXCEPT ![Nest] = DiffApply(o, Top)]
         /\ dir' = [dir EXCEPT ![Len(dir)] = PlainApply(o, @, base, Top)]
         /\ UNCHANGED <<base, saved>>

--------------------------------------------------------------------------
(* ---- observation -------------------------------------------------------- *)

CN == SortedSeq(ChildNames)
StJson(s) == [m |-> RsEntries(s.m),
              k |-> [i \in 1..Len(CN) |-> [c |-> CN[i], e |-> RsEntries(s.k[CN[i]])]]]

(* an overlay diff as it is: upserts with values, tombstones.  The harness  *)
(* needs the representation (not only the view) to re-synchronise the real  *)
(* object after a recorded disagreement and to classify disagreements.      *)
LiveOf(d) == RsRestr(d, {y \in DOMAIN d : d[y] # Tomb})
DelKeys(d) == SortedSeq({y \in DOMAIN d : d[y] = Tomb})
DiffJson(d) == [mset |-> RsEntries(LiveOf(d.m)), mdel |-> DelKeys(d.m),
                k |-> [i \in 1..Len(CN) |-> [c |-> CN[i], set |-> RsEntries(LiveOf(d.k[CN[i]])), del |-> DelKeys(d.k[CN[i]])]]]

(* The main trie of a committed state: main storage plus, for every         *)
(* non-empty child trie c, the key ":child_storage:default:" ++ c holding   *)
(* the child root.  TrieSpec's value encoding takes Len of the value, so    *)
(* the 32-byte child root is represented by the placeholder Rep(32, 240+i); *)
(* the harness substitutes the real child root (itself compared with        *)
(* croots[i]) before hashing.                                               *)
CSP == <<58, 99, 104, 105, 108, 100, 95, 115, 116, 111, 114, 97, 103, 101, 58,
         100, 101, 102, 97, 117, 108, 116, 58>>
TopMap(s) ==
  LET live == {i \in 1..Len(CN) : DOMAIN s.k[CN[i]] # {}}
      ck == {CSP \o CN[i] : i \in live}
      idx(key) == CHOOSE i \in live : CSP \o CN[i] = key
  IN [x \in DOMAIN s.m \cup ck |-> IF x \in ck THEN Rep(32, 240 + idx(x)) ELSE s.m[x]]

RootObs(s) == [root |-> Root(TopMap(s), FALSE),
               croots |-> [i \in 1..Len(CN) |-> IF DOMAIN s.k[CN[i]] = {} THEN <<>> ELSE Root(s.k[CN[i]], FALSE)]]

Obs == IF ~EmitObs THEN [none |-> TRUE] ELSE
       [nest |-> Len(stack'),
        base |-> StJson(base'),
        diffs |-> [i \in 1..Len(stack') |-> DiffJson(stack'[i])],
        roots |-> IF Len(stack') = 0 THEN RootObs(base') ELSE [none |-> TRUE]]

Step(o) ==
  /\ ~done
  /\ Len(hist) < Depth
  /\ Apply(o)
  /\ hist' = Append(hist, [o |-> o, res |-> Result(o), obs |-> Obs])
  /\ UNCHANGED done

Finish == /\ ~done /\ Len(hist) = Depth /\ done' = TRUE /\ UNCHANGED <<base, stack, saved, dir, hist>>

Init == /\ base = EmptyState /\ stack = <<>> /\ saved = <<>> /\ dir = <<EmptyState>>
        /\ hist = <<>> /\ done = FALSE

NextAll == (\E o \in Ops : Step(o)) \/ Finish

Weighted == <<"Start", "Start", "Start", "Start", "Start", "Commit", "Commit", "Rollback", "Rollback",
              "Put", "Put", "Put", "Put", "Delete", "Delete", "ClearPrefix", "ClearPrefixLimit", "ClearPrefixLimit",
              "CSet", "CSet", "CSet", "CSet", "CClear", "CClearPrefix", "CClearPrefixLimit", "DeleteChild", "DeleteChildAll", "DeleteChildLimit",
              "Get", "NextKey", "NextKey", "CGet", "CNextKey", "CNextKey", "CKeys", "CKeys">>
PickOp ==
  LET kinds == {i \in 1..Len(Weighted) : Weighted[i] \in OpKinds}
      kd == Weighted[RandomElement(kinds)]
      cand == {o \in Ops : o.op = kd}
  IN IF cand = {} THEN RandomElement(Ops) ELSE RandomElement(cand)
NextRand == (\E o \in {PickOp} : Step(o)) \/ Finish

SpecAll == Init /\ [][NextAll]_vars
SpecRand == Init /\ [][NextRand]_vars

Dump == done => PrintT(<<"TRACE", ToJson(hist)>>)

--------------------------------------------------------------------------
(* ---- properties of the specification (engine M) ------------------------ *)

IsState(s) == /\ DOMAIN s.m \subseteq MainKeys
              /\ \A c \in ChildNames : DOMAIN s.k[c] \subseteq ChildKeys

TypeOK == /\ IsState(base) /\ IsState(Now)
          /\ Nest \in 0..MaxNest /\ Len(saved) = Nest /\ Len(dir) = Nest + 1

(* "...the same contents ... as applying the committed operations directly": *)
(* every level of the overlay stack shows exactly the plain state obtained   *)
(* by applying the operations with no overlay, and the backend is the bottom *)
DirectEquiv == /\ dir[1] = base
               /\ \A i \in 1..Nest : ViewOf(base, stack[i]) = dir[i + 1]

LastOp == hist'[Len(hist')].o
Stepped == Len(hist') > Len(hist)

(* "A rollback restores exactly the state at the matching start" *)
RollbackExact == [][(Stepped /\ LastOp.op = "Rollback") => (ViewOf(base', IF stack' = <<>> THEN EmptyDiff ELSE stack'[Len(stack')]) = saved[Len(saved)] /\ base' = base)]_vars

NowNext == ViewOf(base', IF stack' = <<>> THEN EmptyDiff ELSE stack'[Len(stack')])

(* transactions are transparent: Start and Commit change no read; the       *)
(* outermost Commit makes the backend equal to what was read before it      *)
TxTransparent == [][(Stepped /\ LastOp.op \in {"Start", "Commit"}) =>
                      /\ NowNext = Now
                      /\ (LastOp.op = "Commit" /\ Nest = 1) => (base' = Now /\ stack' = <<>>)
                      /\ (LastOp.op = "Start" \/ Nest > 1) => base' = base]_vars

(* main keys and child tries are different namespaces; reads change nothing *)
Namespaces == [][Stepped =>
                   /\ IsRead(LastOp) => (base' = base /\ stack' = stack)
                   /\ IsMainMut(LastOp) => NowNext.k = Now.k
                   /\ IsChildMut(LastOp) => (NowNext.m = Now.m /\ \A c \in ChildNames \ {LastOp.c} : NowNext.k[c] = Now.k[c])]_vars

(* prefix clears: an unlimited clear leaves no key with the prefix; a limit  *)
(* that covers every backend key is an unlimited clear; whatever is removed  *)
(* had the prefix; nothing else changes                                      *)
ClearLaws ==
  LET d == Top IN
  /\ \A p \in MainPrefixes :
       /\ RsMatching(Over(base.m, ClearOv(base.m, d.m, p, -1)), p) = {}
       /\ ClearOv(base.m, d.m, p, Cardinality(RsMatching(base.m, p))) = ClearOv(base.m, d.m, p, -1)
       /\ \A n \in Limits : LET a == Over(base.m, d.m)
                                z == Over(base.m, ClearOv(base.m, d.m, p, n))
                            IN /\ DOMAIN z \subseteq DOMAIN a
                               /\ \A x \in DOMAIN a \ DOMAIN z : IsPrefixOf(p, x)
                               /\ \A x \in DOMAIN z : z[x] = a[x]
                               /\ z = ClearPlain(a, base.m, d.m, p, n)
  /\ \A c \in ChildNames : Over(base.k[c], ClearOv(base.k[c], d.k[c], <<>>, -1)) = EmptyMap

View == <<base, stack, saved, dir>>
=============================================================================
