SPECIFICATION TraceSpec
CONSTANTS
  MaxBlocks = 8
  MaxAnn = 4
  Anns <- CAnns
  Depth = 10
  Record = FALSE
  Policy = "pinned"
  Scripts = {}
CONSTRAINT HighWater
POSTCONDITION Accepted
CHECK_DEADLOCK FALSE
