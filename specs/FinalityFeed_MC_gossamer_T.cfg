SPECIFICATION Spec
CONSTANTS
  N = 7
  Cap = 3
  Mode = "gossamer"
INVARIANTS NoDuplicates OnlyIssued ChanBound Accounted DropsNeedFullChannel PromptIsExact OutcomePossible RequiredImpliesPossible
PROPERTY Eventually
CHECK_DEADLOCK FALSE
