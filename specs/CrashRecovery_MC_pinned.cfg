SPECIFICATION CSpecAll
CONSTANTS
  MaxBlocks = 3
  MaxAnn = 2
  Anns <- CAnns
  Depth = 4
  Record = FALSE
  Policy = "pinned"
  Scripts = {}
INVARIANTS UnrecoverableOnlyInTriple TripleIsUnrecoverable QuiescentAgrees
VIEW CView
CHECK_DEADLOCK FALSE
