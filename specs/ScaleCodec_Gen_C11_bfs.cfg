SPECIFICATION SpecAll
CONSTANTS
  Types <- QTypes
  CaseKinds <- OnlyRt
  Depth = 1
  RandDepth = 1
INVARIANT Dump
CHECK_DEADLOCK FALSE
