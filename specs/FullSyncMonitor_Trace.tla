------------------------ MODULE FullSyncMonitor_Trace ------------------------
(***************************************************************************)
(* C32, engine V.  trace.ndjson is recorded from the REAL FullSyncStrategy *)
(* (real blockImporter, real BlockState) fed with the scenarios of         *)
(* FullSyncMonitor_Gen.  Every line has the fields                         *)
(*   ev    "reset" | "deliver" | "import" | "return" | "final" (b: the     *)
(*         block the importer finalised on a verified justification)       *)
(*   sc    scenario number                                                 *)
(*   par   (reset) the block tree                                          *)
(*   batch (deliver) the responses handed to Process: [dir, es: [b, st]]   *)
(*   b, st (import) the block whose header was handed to                   *)
(*         blockImporter.importBlock and the block whose hash was stated   *)
(*   res   (import) "imported" | "skipped" | "error"                       *)
(*         (return) "ok" | "error" | "panic"                               *)
(* "skipped" = importBlock's already-known guard turned the call into a    *)
(* no-op; such calls are not imports and are not constrained.              *)
(*                                                                         *)
(* The monitor state is FullSyncMonitor's (known, offered, imported).      *)
(* Every line is consumed; an event the monitor cannot explain (an import  *)
(* that is not Legal, a panic) is reported as                              *)
(*   <<"VERIF-BAD", {"line","sig","why"}>>                                 *)
(* and the monitor re-synchronises with what the node did, so that one     *)
(* defect does not hide the rest of the trace.  Once a response with a     *)
(* forged stated hash was delivered in a scenario, signatures carry the    *)
(* suffix /after-forged-entry: the node links fragments by STATED hashes,  *)
(* so an accepted forged entry can also make it hand over an honest block  *)
(* twice or before its parent; those are attributed to the same defect.    *)
(***************************************************************************)
EXTENDS FullSyncOps

Trace == ndJsonDeserialize("trace.ndjson")

VARIABLES l, par, known, offered, imported, seenBad, last, forged
tvars == <<l, par, known, offered, imported, seenBad, last, forged>>

Report(i, sig, why) == PrintT(<<"VERIF-BAD", ToJson([line |-> i, sig |-> sig, why |-> why])>>)

TInit == /\ l = 1 /\ par = <<>> /\ known = {0} /\ offered = {} /\ imported = {} /\ seenBad = <<>> /\ last = <<>> /\ forged = FALSE
         /\ TLCSet(1, 1) /\ PrintT(<<"VERIF-FAMILY", "FullSyncMonitor">>)

Ev(e) == l <= Len(Trace) /\ Trace[l].ev = e

TReset ==
  /\ Ev("reset")
  /\ par' = Trace[l].par /\ known' = {0} /\ offered' = {} /\ imported' = {} /\ last' = <<>> /\ forged' = FALSE
  /\ seenBad' = [b \in 1..Len(Trace[l].par) |-> {}]
  /\ l' = l + 1

TDeliver ==
  /\ Ev("deliver")
  /\ LET batch == Trace[l].batch IN
       /\ offered' = offered \cup Offers(par, batch)
       /\ seenBad' = [b \in DOMAIN seenBad |->
                        seenBad[b] \cup ({RespDefect(par, batch[i].es) : i \in {j \in 1..Len(batch) : b \in RespBlocks(batch[j].es)}} \ {"none"})]
       /\ last' = batch
       /\ forged' = (forged \/ \E i \in 1..Len(batch) : ~HashesOK(batch[i].es))
  /\ l' = l + 1 /\ UNCHANGED <<par, known, imported>>

TImport ==
  /\ Ev("import")
  /\ LET e == Trace[l] IN
       IF e.res = "skipped" THEN UNCHANGED <<known, imported>>
       ELSE LET d == ImportDefect(par, known, offered, imported, seenBad, e.b) IN
            /\ IF d = "none" THEN TRUE     \* (IF, not \/: TLC would explore both disjuncts of an action)
               ELSE Report(l, "C32/Import/" \o d \o (IF forged THEN "/after-forged-entry" ELSE ""),
                           "importBlock(block " \o ToString(e.b) \o ", stated " \o ToString(e.st) \o ") -> " \o e.res)
            /\ IF e.res = "imported" /\ e.b \in 1..Len(par)
               THEN known' = known \cup {e.b} /\ imported' = imported \cup {e.b}
               ELSE UNCHANGED <<known, imported>>
  /\ l' = l + 1 /\ UNCHANGED <<par, offered, seenBad, last, forged>>

BatchClass == IF \E i \in 1..Len(last) : Len(last[i].es) = 0 THEN "empty-response"
              ELSE IF \E i \in 1..Len(last) : RespDefect(par, last[i].es) # "none" THEN "damaged-response"
              ELSE "valid-responses"

TReturn ==
  /\ Ev("return")
  /\ IF Trace[l].res # "panic" THEN TRUE
     ELSE Report(l, "C32/Process/" \o BatchClass \o "/panic/" \o Trace[l].why, "Process panicked")
  /\ l' = l + 1 /\ UNCHANGED <<par, known, offered, imported, seenBad, last, forged>>

(* a justified block was imported and finalised (the importer calls SetFinalisedHash): the forks that do not pass through *)
(* it are pruned from the node's block state; they are gone, so they are not "already imported" any more                    *)
TFinal ==
  /\ Ev("final")
  /\ LET f == Trace[l].b
         keep == IF f \in 1..Len(par) THEN SFKnown(par, f) ELSE SFBlocks(par)
     \* a pruned block may be handed over again (it is not "already imported" any more); `known` keeps it: the statement
     \* asks that a block's parent HAS been imported before it, and a fragment whose root was pruned between the node's own
     \* check and the hand-over is refused by the importer without effect
     IN imported' = imported \cap keep
  /\ l' = l + 1 /\ UNCHANGED <<par, known, offered, seenBad, last, forged>>

TNext == TReset \/ TDeliver \/ TImport \/ TReturn \/ TFinal
TraceSpec == TInit /\ [][TNext]_tvars

HighWater == TLCSet(1, IF l > TLCGet(1) THEN l ELSE TLCGet(1))
Accepted == PrintT(<<"VERIF-TRACE", TLCGet(1) - 1, Len(Trace)>>)
=============================================================================
