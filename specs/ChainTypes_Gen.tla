--------------------------- MODULE ChainTypes_Gen ---------------------------
EXTENDS ChainTypes
OnlyRt == {"rt"}
OnlyDec == {"dec"}
BothKinds == {"rt", "dec"}
NoTypes == {}
C14Names == {"header", "babepre", "vote", "signedvote", "body", "digestitem", "announce", "handshake", "txmsg"}
C33Names == {"announce", "handshake", "txmsg", "body", "header"}
(* extension: GRANDPA gossip, commits / justifications, consensus digests, protobuf block request / response *)
C14WireNames == {"gvote", "gcommit", "gneighbour", "gcatchupreq", "gcatchupresp", "gcommitj", "gjust", "primjust", "primjust64",
                 "primsignedmsg", "warpproof", "babecons", "grandpacons", "blockrequest", "blockresponse", "bodycount"}
C33WireNames == {"gvote", "gcommit", "gneighbour", "gcatchupreq", "gcatchupresp", "blockrequest", "blockresponse", "bodycount"}
C14AllNames == C14Names \cup C14WireNames
C33AllNames == C33Names \cup C33WireNames
=============================================================================
