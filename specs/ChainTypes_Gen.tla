--------------------------- MODULE ChainTypes_Gen ---------------------------
EXTENDS ChainTypes
OnlyRt == {"rt"}
OnlyDec == {"dec"}
BothKinds == {"rt", "dec"}
NoTypes == {}
C14Names == {"header", "babepre", "vote", "signedvote", "body", "digestitem", "announce", "handshake", "txmsg"}
C33Names == {"announce", "handshake", "txmsg", "body", "header"}
=============================================================================
