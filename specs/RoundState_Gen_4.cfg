SPECIFICATION SpecRand
CONSTANTS
  Trees <- GTrees
  Voters <- V4
  W <- UnitW
  EqV <- V4
  PVUnanimous = FALSE
  MaxPV = 2
  MaxPC = 2
  Depth = 14
INVARIANT Dump
CHECK_DEADLOCK FALSE
