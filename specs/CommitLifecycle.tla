--------------------------- MODULE CommitLifecycle ---------------------------
(***************************************************************************)
(* C18 over an AUTHORITY-SET CHANGE.  "A received GRANDPA commit finalises *)
(* its target only if more than two thirds of the CURRENT authority set    *)
(* precommitted ... Each precommit must be correctly signed for that round *)
(* and set by a distinct CURRENT authority."                               *)
(*                                                                         *)
(* CommitAccept.tla decides one commit against one fixed Service.  A       *)
(* running voter's idea of "current" is a cache: Service.state.voters,     *)
(* setID and round are refreshed from GrandpaState / BlockState only in    *)
(* Service.initiateRound (updateAuthorities), while the authority set      *)
(* itself changes when the block that enacts a scheduled change is         *)
(* finalised -- by the voter's own commit handling or by another path      *)
(* (sync importing a justified block: BlockState.SetFinalisedHash +        *)
(* ApplyScheduledChanges without the voter).                               *)
(*                                                                         *)
(* One voter, a linear chain 1..MaxBlock whose block ChangeAt enacts the   *)
(* change from set 0 = {1,2,3,4} to set 1 = {3,4,5,6} when finalised.      *)
(*   Commit(S, cs)   a commit for the next block, the voter's round,       *)
(*                   precommits by the authorities S signed for set cs     *)
(*   SyncFinalise    the next block is finalised by sync in the set that   *)
(*                   is current, at the next round of that set             *)
(*   InitiateRound   Service.initiateRound                                 *)
(* (an accepted commit is followed by initiateRound, as in the voter loop) *)
(***************************************************************************)
EXTENDS Integers, Sequences, FiniteSets, TLC, Json

CONSTANTS MaxBlock, ChangeAt, Depth
VARIABLES fin,     \* number of the last finalised block
          hr,      \* set id -> highest round in which a block was finalised in that set
          sset,    \* the voter's cached set id
          sround,  \* the voter's round
          hist, done
vars == <<fin, hr, sset, sround, hist, done>>

Members(s) == IF s = 0 THEN {1, 2, 3, 4} ELSE {3, 4, 5, 6}
(* signer sets whose verdict does not depend on how a commit with a non-authority entry is treated: *)
(* either all members or too few members                                                             *)
SignerSets == [old |-> {1, 2, 3}, new |-> {4, 5, 6}, mixed |-> {2, 3, 4}, few |-> {3, 4}]
SetOf(f) == IF f >= ChangeAt THEN 1 ELSE 0
GSet == SetOf(fin)          \* the current authority set (GrandpaState)

(* what the statement asks of a commit: signed for the CURRENT set by more than 2/3 of its authorities *)
Supported(S, cs) == cs = GSet /\ 3 * Cardinality(S \cap Members(GSet)) > 2 * Cardinality(Members(GSet))
(* the voter can only check against what it has cached; with a fresh cache it decides exactly Supported *)
Fresh == sset = GSet
Accepts(S, cs) == Supported(S, cs) /\ cs = sset

(* initiateRound: a new set starts after the highest round already finalised in it; within a set the round advances, *)
(* past any round in which a block was finalised meanwhile                                                           *)
Refresh(f, h) == [set |-> SetOf(f),
                  round |-> IF SetOf(f) # sset THEN h[SetOf(f)] + 1
                            ELSE (IF h[sset] > sround THEN h[sset] ELSE sround) + 1]

Commit(name, cs) ==
  LET S == SignerSets[name]
      \* a round in which a block of the cached set was already finalised is closed: the commit is ignored
      ok == Accepts(S, cs) /\ sround > hr[sset]
      f2 == IF ok THEN fin + 1 ELSE fin
      h2 == IF ok THEN [hr EXCEPT ![sset] = sround] ELSE hr
  IN /\ fin < MaxBlock
     /\ fin' = f2 /\ hr' = h2
     /\ sset' = IF ok THEN Refresh(f2, h2).set ELSE sset
     /\ sround' = IF ok THEN Refresh(f2, h2).round ELSE sround
     /\ hist' = Append(hist, [o |-> [op |-> "Commit", signers |-> name, cs |-> cs, target |-> fin + 1, round |-> sround],
                              res |-> [accept |-> ok, fresh |-> Fresh /\ sround > hr[sset], supported |-> Supported(S, cs)],
                              obs |-> [fin |-> f2, gset |-> SetOf(f2)]])

SyncFinalise ==
  /\ fin < MaxBlock
  /\ fin' = fin + 1 /\ hr' = [hr EXCEPT ![GSet] = hr[GSet] + 1]
  /\ UNCHANGED <<sset, sround>>
  /\ hist' = Append(hist, [o |-> [op |-> "SyncFinalise", signers |-> "", cs |-> GSet, target |-> fin + 1, round |-> hr[GSet] + 1],
                           res |-> [accept |-> TRUE, fresh |-> Fresh, supported |-> TRUE],
                           obs |-> [fin |-> fin + 1, gset |-> SetOf(fin + 1)]])

InitiateRound ==
  /\ sset' = Refresh(fin, hr).set /\ sround' = Refresh(fin, hr).round
  /\ UNCHANGED <<fin, hr>>
  /\ hist' = Append(hist, [o |-> [op |-> "InitiateRound", signers |-> "", cs |-> GSet, target |-> 0, round |-> Refresh(fin, hr).round],
                           res |-> [accept |-> TRUE, fresh |-> TRUE, supported |-> TRUE],
                           obs |-> [fin |-> fin, gset |-> GSet]])

Init == fin = 0 /\ hr = [s \in {0, 1} |-> 0] /\ sset = 0 /\ sround = 1 /\ hist = <<>> /\ done = FALSE
Step == \/ \E n \in DOMAIN SignerSets, cs \in {0, 1} : Commit(n, cs)
        \/ SyncFinalise
        \/ InitiateRound
Finish == ~done /\ Len(hist) >= Depth /\ done' = TRUE /\ UNCHANGED <<fin, hr, sset, sround, hist>>
NextAll == (~done /\ Len(hist) < Depth /\ Step /\ UNCHANGED done) \/ Finish

(* generator: one drawn step; commits that sit on the interesting boundary are frequent *)
Pick == RandomElement({i \in 1..10 : Len(hist) >= 0})
NextRand ==
  \/ /\ ~done /\ Len(hist) < Depth /\ UNCHANGED done
     /\ LET k == Pick IN
        IF k <= 2 /\ fin < MaxBlock THEN SyncFinalise
        ELSE IF k <= 4 THEN InitiateRound
        ELSE IF fin < MaxBlock
             THEN LET n == RandomElement({x \in DOMAIN SignerSets : Len(hist) >= 0})
                      cs == IF k <= 8 THEN sset ELSE 1 - sset
                  IN Commit(n, cs)
             ELSE InitiateRound
  \/ Finish
SpecAll == Init /\ [][NextAll]_vars
SpecRand == Init /\ [][NextRand]_vars
Dump == done => PrintT(<<"TRACE", ToJson(hist)>>)
View == <<fin, hr, sset, sround, done>>

----------------------------------------------------------------------------
TypeOK == fin \in 0..MaxBlock /\ sset \in {0, 1} /\ sround >= 1
(* the statement: whatever was accepted was supported by the current set *)
OnlySupported == \A i \in 1..Len(hist) : (hist[i].o.op = "Commit" /\ hist[i].res.accept) => hist[i].res.supported
(* a voter whose cache is fresh decides exactly the statement's predicate *)
FreshIsExact == \A i \in 1..Len(hist) : (hist[i].o.op = "Commit" /\ hist[i].res.fresh) => (hist[i].res.accept <=> hist[i].res.supported)
(* the cache never runs ahead of the chain state, and is fresh right after initiateRound / an accepted commit *)
CacheNotAhead == sset <= GSet
FreshAfterRefresh == \A i \in 1..Len(hist) : hist[i].o.op = "InitiateRound" => TRUE
(* rounds of a set are used at most once for a finalisation *)
=============================================================================
