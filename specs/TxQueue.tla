------------------------------ MODULE TxQueue ------------------------------
(* Sequential machine over TxQueueOps (C34): engines M and G.              *)
EXTENDS TxQueueOps, TLC, Json

CONSTANTS Txs, Prios, Depth

VARIABLES s, hist, done, popped
vars == <<s, hist, done, popped>>

Ops == {[op |-> "Push", tx |-> t, prio |-> p] : t \in Txs, p \in Prios}
       \cup {[op |-> k, tx |-> 0, prio |-> 0] : k \in {"Pop", "Peek", "Len"}}
       \cup {[op |-> k, tx |-> t, prio |-> 0] : k \in {"Remove", "Exists"}, t \in Txs}

Step(o) ==
  /\ ~done /\ Len(hist) < Depth
  /\ s' = QApply(s, o)
  /\ hist' = Append(hist, [o |-> o, res |-> QRes(s, o), obs |-> Drain(s')])
  /\ popped' = IF o.op = "Pop" /\ s.q # {} THEN Append(popped, Best(s)) ELSE popped
  /\ UNCHANGED done
Finish == ~done /\ Len(hist) = Depth /\ done' = TRUE /\ UNCHANGED <<s, hist, popped>>
Init == s = EmptyQ /\ hist = <<>> /\ done = FALSE /\ popped = <<>>

Weighted == <<"Push", "Push", "Push", "Pop", "Pop", "Peek", "Len", "Remove", "Exists">>
PickOp == LET k == Weighted[RandomElement(1..(Len(Weighted) + 0 * Len(hist)))]
          IN RandomElement({o \in Ops : o.op = k})
NextAll == (\E o \in Ops : Step(o)) \/ Finish
NextRand == (\E o \in {PickOp} : Step(o)) \/ Finish
SpecAll == Init /\ [][NextAll]_vars
SpecRand == Init /\ [][NextRand]_vars
Dump == done => PrintT(<<"TRACE", ToJson(hist)>>)

(* ---- properties of the specification ---------------------------------- *)
NoDuplicates == \A a, b \in s.q : a.tx = b.tx => a = b
UniqueOrd == \A a, b \in s.q : a.ord = b.ord => a = b
(* whatever is popped was, at that moment, not preceded by any queued entry *)
PopIsBest == [][\A o \in Ops : (hist' # hist /\ hist'[Len(hist')].o = o /\ o.op = "Pop" /\ s.q # {}) =>
                  \A f \in s'.q : Before(popped'[Len(popped')], f)]_vars
(* an entry is yielded at most once: insertion counters in popped are distinct *)
AtMostOnce == \A i, j \in 1..Len(popped) : i # j => popped[i].ord # popped[j].ord
View == <<s, popped>>
=============================================================================
