SPECIFICATION CSpecRand
CONSTANTS
  MaxBlocks = 7
  MaxAnn = 3
  Anns <- RAnns
  Depth = 10
  Record = TRUE
  Policy = "pinned"
  Scripts = {}
INVARIANT CDump
CHECK_DEADLOCK FALSE
