---------------------------- MODULE HostTrieRoot ----------------------------
(***************************************************************************)
(* C10  Host trie-root functions compute spec roots                        *)
(* (lib/runtime/wazero imports.go ext_trie_blake2_256_root_version_1/2 and *)
(* ext_trie_blake2_256_ordered_root_version_1/2).                          *)
(*                                                                         *)
(* Property text and where it lives here:                                  *)
(*  "The host functions that compute a trie root from a SCALE-encoded list *)
(*   of key/value pairs, or an ordered root from a list of values keyed by *)
(*   their compact-encoded index, return the spec root for the requested   *)
(*   state version for every input."                                       *)
(*      -> Expected: the input BYTES are decoded by DecInput (SCALE:        *)
(*         compact count, then byte strings), turned into a map (MapOfPairs *)
(*         - a repeated key keeps its last value; MapOfValues - key of the  *)
(*         i-th value is Compact(i), i from 0) and given to TrieSpec!Root.  *)
(*  "They return failure for an unknown version or undecodable input."     *)
(*      -> Expected.ok = FALSE iff the version is not 0 or 1 or DecInput    *)
(*         fails (input ends before the announced items do).                *)
(* version_1 functions take no version: state version 0.                   *)
(* Bytes after the last announced item are not generated (not pinned down).*)
(***************************************************************************)
EXTENDS TrieSpec, TLC, Json

CONSTANTS Keys, Vals, Lens, LongLens, Versions, Damages, Depth   \* LongLens: rare long lists (generator only)

VARIABLES hist, done
vars == <<hist, done>>

(* ---- SCALE ------------------------------------------------------------- *)
EncStr(b) == Compact(Len(b)) \o b
RECURSIVE EncStrs(_)
EncStrs(items) == IF items = <<>> THEN <<>> ELSE EncStr(items[1]) \o EncStrs(Tail(items))

NoDec == [ok |-> FALSE, n |-> 0, plen |-> 0]
DecCompact(s) ==
  IF s = <<>> THEN NoDec
  ELSE LET b == s[1] mode == b % 4
       IN CASE mode = 0 -> [ok |-> TRUE, n |-> b \div 4, plen |-> 1]
            [] mode = 1 -> IF Len(s) < 2 THEN NoDec ELSE [ok |-> TRUE, n |-> (b \div 4) + s[2] * 64, plen |-> 2]
            [] mode = 2 -> IF Len(s) < 4 THEN NoDec
                           ELSE [ok |-> TRUE, n |-> (b \div 4) + s[2] * 64 + s[3] * 16384 + s[4] * 4194304, plen |-> 4]
            [] OTHER -> NoDec   \* counts >= 2^30 are not generated

NoStrs == [ok |-> FALSE, items |-> <<>>]
RECURSIVE DecStrs(_, _)
DecStrs(s, cnt) ==
  IF cnt = 0 THEN [ok |-> TRUE, items |-> <<>>]
  ELSE LET c == DecCompact(s)
       IN IF ~c.ok \/ Len(s) < c.plen + c.n THEN NoStrs
          ELSE LET r == DecStrs(Drop(s, c.plen + c.n), cnt - 1)
               IN IF ~r.ok THEN NoStrs
                  ELSE [ok |-> TRUE, items |-> <<SubSeq(s, c.plen + 1, c.plen + c.n)>> \o r.items]

(* kind "root": count pairs = 2 * count byte strings; kind "ordered": count byte strings *)
DecInput(kind, data) ==
  LET c == DecCompact(data)
  IN IF ~c.ok THEN NoStrs ELSE DecStrs(Drop(data, c.plen), IF kind = "root" THEN 2 * c.n ELSE c.n)

(* ---- the maps ----------------------------------------------------------- *)
(* flat = <<k1, v1, k2, v2, ...>>; a repeated key keeps its LAST value *)
MapOfPairs(flat) ==
  LET n == Len(flat) \div 2
      K == {flat[2 * i - 1] : i \in 1..n}
      lastIdx(k) == CHOOSE i \in 1..n : flat[2 * i - 1] = k /\ \A j \in 1..n : flat[2 * j - 1] = k => j <= i
  IN [k \in K |-> flat[2 * lastIdx(k)]]

(* the i-th value (from 0) is stored under the compact encoding of i *)
MapOfValues(vals) ==
  LET n == Len(vals)
      K == {Compact(i - 1) : i \in 1..n}
  IN [k \in K |-> vals[CHOOSE i \in 1..n : Compact(i - 1) = k]]

(* o = [kind, fn, ver, data]; fn = 1: the version_1 function (no version argument) *)
Expected(o) ==
  LET v == IF o.fn = 1 THEN 0 ELSE o.ver
      d == DecInput(o.kind, o.data)
  IN IF v \notin {0, 1} \/ ~d.ok THEN [ok |-> FALSE, root |-> <<>>]
     ELSE [ok |-> TRUE, root |-> Root(IF o.kind = "root" THEN MapOfPairs(d.items) ELSE MapOfValues(d.items), v = 1)]

(* ---- inputs -------------------------------------------------------------- *)
Flatten(pairs) == [i \in 1..(2 * Len(pairs)) |-> IF i % 2 = 1 THEN pairs[(i + 1) \div 2][1] ELSE pairs[i \div 2][2]]

(* items: the byte strings; n: the count announced *)
Data(n, items, dmg) ==
  LET good == Compact(n) \o EncStrs(items)
  IN CASE dmg = "none" -> good
       [] dmg = "cut1" -> SubSeq(good, 1, Len(good) - 1)
       [] dmg = "cuthalf" -> SubSeq(good, 1, Len(good) \div 2)
       [] dmg = "count+1" -> Compact(n + 1) \o EncStrs(items)

MkCase(kind, fn, ver, list, dmg) ==
  [kind |-> kind, fn |-> fn, ver |-> ver, dmg |-> dmg, n |-> Len(list),
   data |-> Data(Len(list), IF kind = "root" THEN Flatten(list) ELSE list, dmg)]

Lists(S) == UNION {[1..n -> S] : n \in Lens}
AllCases ==
       {MkCase("root", fv[1], fv[2], l, d) : fv \in ({<<1, 0>>} \cup {<<2, v>> : v \in Versions}), l \in Lists(Keys \X Vals), d \in Damages}
  \cup {MkCase("ordered", fv[1], fv[2], l, d) : fv \in ({<<1, 0>>} \cup {<<2, v>> : v \in Versions}), l \in Lists(Vals), d \in Damages}

Step(o) ==
  /\ ~done
  /\ Len(hist) < Depth
  /\ hist' = Append(hist, [o |-> o, res |-> Expected(o)])
  /\ UNCHANGED done

Finish == /\ ~done /\ Len(hist) = Depth /\ done' = TRUE /\ UNCHANGED hist

Init == hist = <<>> /\ done = FALSE

NextAll == (\E o \in AllCases : Step(o)) \/ Finish

Pick(S) == RandomElement({x \in S : Len(hist) >= 0})
PickCase ==
  LET kind == Pick({"root", "ordered"})
      fn == Pick({1, 2, 2})
      ver == IF Pick(1..4) = 1 THEN Pick(Versions) ELSE Pick({0, 1})
      n == IF LongLens # {} /\ Pick(1..16) = 1 THEN Pick(LongLens) ELSE Pick(Lens)
      dmg == IF Pick(1..5) = 1 THEN Pick(Damages) ELSE "none"
      list == IF kind = "root" THEN [i \in 1..n |-> <<Pick(Keys), Pick(Vals)>>] ELSE [i \in 1..n |-> Pick(Vals)]
  IN MkCase(kind, fn, ver, list, dmg)
NextRand == (\E o \in {PickCase} : Step(o)) \/ Finish

SpecAll == Init /\ [][NextAll]_vars
SpecRand == Init /\ [][NextRand]_vars

Dump == done => PrintT(<<"TRACE", ToJson(hist)>>)

--------------------------------------------------------------------------
(* ---- properties of the specification (engine M) ------------------------ *)

(* every well-formed input decodes to what was encoded; every damaged input  *)
(* is undecodable; the ordered-root keys of different indices differ; a     *)
(* root is requested only for versions 0 and 1; the result is 32 bytes      *)
CaseLaws ==
  \A i \in 1..Len(hist) :
    LET o == hist[i].o
        r == hist[i].res
        d == DecInput(o.kind, o.data)
    IN /\ (o.dmg = "none") <=> d.ok
       /\ d.ok => /\ Compact(Len(d.items) \div (IF o.kind = "root" THEN 2 ELSE 1)) \o EncStrs(d.items) = o.data
                  /\ Len(d.items) = (IF o.kind = "root" THEN 2 * o.n ELSE o.n)
       /\ r.ok <=> (d.ok /\ (o.fn = 1 \/ o.ver \in {0, 1}))
       /\ r.ok => BLen(r.root) = 32
       /\ (r.ok /\ o.kind = "ordered") => Cardinality(DOMAIN MapOfValues(d.items)) = o.n
       /\ (r.ok /\ o.kind = "root") =>
            LET m == MapOfPairs(d.items)
            IN /\ DOMAIN m = {d.items[2 * j - 1] : j \in 1..o.n}
               /\ \A j \in 1..o.n : (\A j2 \in (j + 1)..o.n : d.items[2 * j2 - 1] # d.items[2 * j - 1]) => m[d.items[2 * j - 1]] = d.items[2 * j]
=============================================================================
