SPECIFICATION Spec
CONSTANTS
  MaxH = 132
  MaxBlocks = 4
  Maxes <- MCMaxes
  FieldMasks <- MCMasks
INVARIANTS PlanCorrect PlanSharp ServeSound ServeTotal
CHECK_DEADLOCK FALSE
