SPECIFICATION Spec
CONSTANTS
  MaxH = 140
  MaxBlocks = 4
  Maxes <- MCMaxes
  FieldMasks <- MCMasks
INVARIANTS PlanCorrect PlanSharp ServeSound ServeTotal
CHECK_DEADLOCK FALSE
