SPECIFICATION Spec
CONSTANTS
  PlanRows <- QuickRows
  MaxH = 270
  MaxBlocks = 4
  Maxes <- MCMaxes
  FieldMasks <- MCMasks
INVARIANTS PlanCorrect PlanSharp ServeSound ServeTotal
CHECK_DEADLOCK FALSE
