---------------------------- MODULE CrashRecovery ----------------------------
(***************************************************************************)
(* C36 "Chain state survives a crash at any write".                        *)
(*                                                                         *)
(* The authority-set machine of C23 (module AuthoritySet: block tree,      *)
(* Import, Finalise, scheduled and forced changes) is refined to the       *)
(* database writes the node makes for each operation, ONE ACTION PER WRITE *)
(* IN CODE ORDER (a batch is one atomic write):                            *)
(*                                                                         *)
(*   Import b    StoreTrie/WriteDirty: one batch (row trie:b);             *)
(*               if a forced change takes effect at b (ApplyForcedChanges):*)
(*               change:cur, then the AUTHORITY TRIPLE of the new set      *)
(*   Finalise b  SetFinalisedHash: for every newly finalised block x in    *)
(*               chain order hdr:x, (fsn if number 1), blb:x, arr:x; then  *)
(*               one batch of hsh:number -> x; fin:round:set -> b; hrs;    *)
(*               if a scheduled change takes effect                        *)
(*               (ApplyScheduledChanges): the AUTHORITY TRIPLE             *)
(*                                                                         *)
(* The authority triple of a new set n is the rows setID = n, auth:n,      *)
(* change:n.  Policy "pinned" writes it in the order of the pinned code    *)
(* (IncrementSetID first: setID, auth, change); policy "required" writes   *)
(* the pointer last (auth, change, setID).                                 *)
(*                                                                         *)
(* "Suppose the process stops after any prefix of the database writes"     *)
(*      -> action Crash is enabled between any two writes;                 *)
(* "Restarting from the database then succeeds with a finalised head whose *)
(*  header, body and state are readable, finalised round and set id no     *)
(*  older than before, and a current GRANDPA set id whose authority list   *)
(*  and activation block are present"  -> Recoverable(db, stable).         *)
(*                                                                         *)
(* Engine M: AlwaysRecoverable is an invariant under policy "required";    *)
(* under policy "pinned" it is NOT, and UnrecoverableOnlyInTriple states   *)
(* exactly where it fails (between the setID write and the change write of *)
(* an authority triple).                                                   *)
(***************************************************************************)
EXTENDS AuthoritySet

CONSTANTS Policy,      \* "pinned" | "required"
          Scripts      \* set of operation sequences (scripted scenarios); {} = every enabled operation

VARIABLES db,        \* durable rows: function key -> value
          wq,        \* writes of the operation in progress that are not durable yet
          cur,       \* [i, o] operation in progress (i = 0: none)
          script,    \* remaining scripted operations
          nfin,      \* number of finalisations so far (= GRANDPA round used)
          stable,    \* hrs value when the operation in progress began ("before")
          crashed,
          whist,     \* generator: one record per write
          dbalt      \* generator: the database under the OTHER write-order policy (same operations)
cvars == <<st, hist, done, db, wq, cur, script, nfin, stable, crashed, whist, dbalt>>

Key(kind, i) == kind \o ":" \o ToString(i)
Row(k, v) == [k |-> k, v |-> v]
Hrs(round, set) == round * 100 + set

GenesisDb == [k \in {"hdr:0", "blb:0", "arr:0", "hsh:0", "fin:0:0", "hrs", "trie:0", "setID", "auth:0", "change:0"} |-> 0]

Has(d, k) == k \in DOMAIN d
DbWrite(d, rows) ==
  [k \in DOMAIN d \cup {rows[i].k : i \in 1..Len(rows)} |->
      IF \E i \in 1..Len(rows) : rows[i].k = k
      THEN rows[CHOOSE i \in 1..Len(rows) : rows[i].k = k /\ \A j \in 1..Len(rows) : rows[j].k = k => j <= i].v
      ELSE d[k]]

(* ---- recoverability (the property) ------------------------------------ *)
Recoverable(d, before) ==
  /\ Has(d, "hsh:0") /\ Has(d, "hrs") /\ d["hrs"] >= before
  /\ LET r == d["hrs"] \div 100
         s == d["hrs"] % 100
         fk == "fin:" \o ToString(r) \o ":" \o ToString(s)
     IN /\ Has(d, fk)
        /\ Has(d, Key("hdr", d[fk])) /\ Has(d, Key("blb", d[fk])) /\ Has(d, Key("trie", d[fk]))
  /\ Has(d, "setID") /\ Has(d, Key("auth", d["setID"])) /\ Has(d, Key("change", d["setID"]))

(* ---- the writes of one operation, in code order ------------------------ *)
TripleP(pol, new, authv, at) ==
  IF pol = "pinned"
  THEN << <<Row("setID", new)>>, <<Row(Key("auth", new), authv)>>, <<Row(Key("change", new), at)>> >>
  ELSE << <<Row(Key("auth", new), authv)>>, <<Row(Key("change", new), at)>>, <<Row("setID", new)>> >>

RECURSIVE BlockRows(_, _)
BlockRows(s, xs) ==
  IF xs = <<>> THEN <<>>
  ELSE LET x == Head(xs)
       IN << <<Row(Key("hdr", x), 1)>> >>
          \o (IF Num(s, x) = 1 THEN << <<Row("fsn", 1)>> >> ELSE <<>>)
          \o << <<Row(Key("blb", x), 1)>>, <<Row(Key("arr", x), 1)>> >>
          \o BlockRows(s, Tail(xs))

OpWritesP(pol, s, o, r, round) ==
  LET applied == r.s.setId # s.setId
      new == r.s.setId
  IN IF o.op = "Import"
     THEN LET b == Len(s.par) + 1
          IN << <<Row(Key("trie", b), 1)>> >>
             \o (IF applied
                 THEN LET c == r.s.applied[Len(r.s.applied)].blk
                      IN << <<Row(Key("change", s.setId), r.s.ann[c].m)>> >>
                         \o TripleP(pol, new, r.s.ann[c].a, Num(r.s, b))
                 ELSE <<>>)
     ELSE IF o.op = "Refinalise"
     THEN << <<Row("fin:" \o ToString(round) \o ":" \o ToString(s.setId), o.b)>>, <<Row("hrs", Hrs(round, s.setId))>> >>
     ELSE LET xs == CFSorted({x \in 1..Len(s.par) : CFAnc(s.par, s.fin, x) /\ CFAncEq(s.par, x, o.b)})
          IN BlockRows(s, xs)
             \o << [i \in 1..Len(xs) |-> Row(Key("hsh", Num(s, xs[i])), xs[i])] >>
             \o << <<Row("fin:" \o ToString(round) \o ":" \o ToString(s.setId), o.b)>> >>
             \o << <<Row("hrs", Hrs(round, s.setId))>> >>
             \o (IF applied
                 THEN LET c == r.s.applied[Len(r.s.applied)].blk
                      IN TripleP(pol, new, r.s.ann[c].a, Eff(s, c))
                 ELSE <<>>)

OpWrites(s, o, r, round) == OpWritesP(Policy, s, o, r, round)
OtherPolicy == IF Policy = "pinned" THEN "required" ELSE "pinned"

(* Refinalise: GRANDPA finalises the head again in every round in which no new block became final (an idle chain);    *)
(* SetFinalisedHash then writes only the round's row and the pointer; the abstract authority set does not move.        *)
IsFin(o) == o.op = "Finalise" \/ o.op = "Refinalise"
CApply(s, o) == IF o.op = "Refinalise" THEN [s |-> s, res |-> "ok", cls |-> ""] ELSE Apply(s, o)
RefinaliseOps(s) == IF s.fin # 0 THEN {[op |-> "Refinalise", p |-> 0, a |-> NoAnn, b |-> s.fin]} ELSE {}

(* ---- the machine -------------------------------------------------------- *)
CInit == /\ st = InitState /\ hist = <<>> /\ done = FALSE
         /\ db = GenesisDb /\ wq = <<>> /\ cur = [i |-> 0, o |-> [op |-> "none", p |-> 0, a |-> NoAnn, b |-> 0], alt |-> <<>>]
         /\ dbalt = GenesisDb
         /\ script \in (IF Scripts = {} THEN {<<>>} ELSE Scripts)
         /\ nfin = 0 /\ stable = 0 /\ crashed = FALSE /\ whist = <<>>

Begin(o) ==
  /\ ~crashed /\ ~done /\ wq = <<>>
  /\ LET r == CApply(st, o)
         round == IF IsFin(o) THEN nfin + 1 ELSE nfin
     IN /\ st' = r.s
        /\ wq' = OpWrites(st, o, r, round)
        /\ nfin' = round
  /\ cur' = [i |-> cur.i + 1, o |-> o,
              alt |-> IF Record THEN LET r == CApply(st, o) IN OpWritesP(OtherPolicy, st, o, r, IF IsFin(o) THEN nfin + 1 ELSE nfin)
                      ELSE <<>>]
  /\ stable' = db["hrs"]
  /\ UNCHANGED <<hist, done, db, crashed, whist, dbalt>>

OpOK(s, o) == IF o.op = "Import" THEN Live(s, o.p) /\ Len(s.par) < MaxBlocks
              ELSE IF o.op = "Refinalise" THEN o \in RefinaliseOps(s)
              ELSE o.b \in 1..Len(s.par) /\ FinaliseOK(s, o.b)
BeginScripted == script # <<>> /\ OpOK(st, Head(script)) /\ Begin(Head(script)) /\ script' = Tail(script)
BeginAny == Scripts = {} /\ cur.i < Depth
            /\ (\E o \in EnabledOps(st) \cup (IF cur.o.op = "Refinalise" THEN {} ELSE RefinaliseOps(st)) : Begin(o))
            /\ UNCHANGED script

Write ==
  /\ ~crashed /\ wq # <<>>
  /\ db' = DbWrite(db, Head(wq)) /\ wq' = Tail(wq)
  /\ LET walt == IF Record THEN cur.alt[Len(cur.alt) - Len(wq) + 1] ELSE <<>>
     IN /\ dbalt' = IF Record THEN DbWrite(dbalt, walt) ELSE dbalt
        /\ whist' = IF Record
                    THEN Append(whist, [i |-> cur.i, o |-> cur.o, left |-> Len(wq) - 1,
                                        pol |-> Policy, w |-> Head(wq), rec |-> Recoverable(DbWrite(db, Head(wq)), stable),
                                        polalt |-> OtherPolicy, walt |-> walt, recalt |-> Recoverable(DbWrite(dbalt, walt), stable)])
                    ELSE whist
  /\ UNCHANGED <<st, hist, done, cur, script, nfin, stable, crashed>>

(* the process stops: whatever is in wq is lost, db is the durable prefix *)
Crash == /\ ~crashed /\ ~done /\ crashed' = TRUE
         /\ UNCHANGED <<st, hist, done, db, wq, cur, script, nfin, stable, whist, dbalt>>

CFinish == /\ ~crashed /\ ~done /\ wq = <<>> /\ script = <<>> /\ Scripts # {}
           /\ done' = TRUE
           /\ UNCHANGED <<st, hist, db, wq, cur, script, nfin, stable, crashed, whist, dbalt>>

(* random scenarios for the generator: operations on which the pinned code agrees with AuthoritySet    *)
(* (C23 records the others: changes on abandoned forks, finalising between announcement and effect,   *)
(* rejected imports)                                                                                   *)
SafeFinalise(s, b) == /\ ~\E r \in CFRoots(s.par, s.pstd) : CFAnc(s.par, r, b) /\ Eff(s, r) > Num(s, b)
                      /\ ~\E x \in s.pstd : ~(CFAncEq(s.par, b, x) \/ CFAnc(s.par, x, b))
                      /\ ~\E c \in s.pfor : ~CFAncEq(s.par, b, c)
SafeOps(s) == {o \in EnabledOps(s) : IF o.op = "Finalise" THEN SafeFinalise(s, o.b) ELSE ImportApply(s, o.p, o.a).res = "ok"}
PickSafe == LET E == SafeOps(st)
                F == {o \in E : o.op = "Finalise"}
                w == RandomElement({x \in 1..100 : cur.i >= 0})
                kd == IF w <= 55 THEN "N" ELSE IF w <= 80 THEN "S" ELSE "F"
                I == {o \in E : o.op = "Import" /\ o.a.k = kd}
                R == RefinaliseOps(st)
            IN IF w <= 8 /\ R # {} THEN RandomElement(R)
               ELSE IF w <= 35 /\ F # {} THEN RandomElement(F) ELSE IF I # {} THEN RandomElement(I) ELSE RandomElement(E)
BeginRand == /\ wq = <<>> /\ cur.i < Depth /\ SafeOps(st) # {}
             /\ \E o \in {PickSafe} : Begin(o)
             /\ UNCHANGED script
CFinishRand == /\ ~done /\ wq = <<>> /\ (cur.i >= Depth \/ SafeOps(st) = {})
               /\ done' = TRUE
               /\ UNCHANGED <<st, hist, db, wq, cur, script, nfin, stable, crashed, whist, dbalt>>
CNextRand == BeginRand \/ Write \/ CFinishRand
CSpecRand == CInit /\ [][CNextRand]_cvars

CNextAll == BeginScripted \/ BeginAny \/ Write \/ Crash \/ CFinish
CNextRun == BeginScripted \/ Write \/ CFinish          \* no crash: the write sequence of a script
CSpecAll == CInit /\ [][CNextAll]_cvars
CSpecRun == CInit /\ [][CNextRun]_cvars

CDump == done => PrintT(<<"TRACE", ToJson(whist)>>)
CView == <<st, db, wq, cur.o, script, nfin, stable, crashed>>

(* ---- what TLC checks (engine M) ------------------------------------------ *)
(* the property: whatever prefix of the writes is durable, a restart recovers *)
AlwaysRecoverable == crashed => Recoverable(db, stable)

(* pinned order: a crash is unrecoverable exactly between the setID write and the change write of a triple *)
InTriple == /\ wq # <<>> /\ Has(db, "setID")
            /\ ~(Has(db, Key("auth", db["setID"])) /\ Has(db, Key("change", db["setID"])))
UnrecoverableOnlyInTriple == (crashed /\ ~Recoverable(db, stable)) => InTriple
TripleIsUnrecoverable == (crashed /\ InTriple) => ~Recoverable(db, stable)

(* without a crash the database is consistent with the abstract authority set after every operation *)
QuiescentAgrees == (wq = <<>> /\ ~crashed) =>
   /\ db["setID"] = st.setId
   /\ \A s \in 0..st.setId : Has(db, Key("auth", s)) /\ db[Key("auth", s)] = st.auths[s + 1] /\ Has(db, Key("change", s))
   /\ Recoverable(db, stable)
   /\ LET fk == "fin:" \o ToString(db["hrs"] \div 100) \o ":" \o ToString(db["hrs"] % 100) IN db[fk] = st.fin
=============================================================================
