-------------------------- MODULE CrashRecovery_Gen --------------------------
(* Scripted scenarios and constants for CrashRecovery (C36).  Blocks are numbered in import order. *)
EXTENDS CrashRecovery

I(p, a) == [op |-> "Import", p |-> p, a |-> a, b |-> 0]
F(b) == [op |-> "Finalise", p |-> 0, a |-> NoAnn, b |-> b]
S(d, a) == [k |-> "S", d |-> d, a |-> a, m |-> 0]
Fc(d, a, m) == [k |-> "F", d |-> d, a |-> a, m |-> m]

(* A: import blocks, finalise one by one and several at once, a scheduled change with delay 1 *)
ScriptA == << I(0, NoAnn), I(1, S(1, 1)), I(2, NoAnn), F(1), F(3), I(3, NoAnn), F(4) >>
(* B: a forced change (delay 1) takes effect at the import of block 4, then finality resumes *)
ScriptB == << I(0, NoAnn), I(1, NoAnn), F(1), I(2, Fc(1, 2, 1)), I(3, NoAnn), I(4, NoAnn), F(5) >>
(* C: scheduled change effective at its own block, an abandoned fork without changes, a second scheduled *)
(*    change, then a forced change with delay 0                                                         *)
ScriptC == << I(0, S(0, 1)), I(0, NoAnn), I(1, NoAnn), F(1), I(3, S(1, 2)), I(4, NoAnn), F(5), I(5, Fc(0, 3, 4)) >>
(* D: blocks 1 and 2 finalised together (first-slot row), change on the finalised block itself *)
ScriptD == << I(0, NoAnn), I(1, S(0, 2)), F(2), I(2, NoAnn), F(3) >>

(* E: an idle chain: the head is finalised again in later rounds (no new block), before and after a real finalisation, *)
(*    twice in a row, and across a scheduled change                                                                     *)
R(b) == [op |-> "Refinalise", p |-> 0, a |-> NoAnn, b |-> b]
ScriptE == << I(0, NoAnn), F(1), R(1), I(1, S(0, 1)), R(1), F(2), R(2), R(2), I(2, NoAnn), F(3), R(3) >>

AllScripts == {ScriptA, ScriptB, ScriptC, ScriptD, ScriptE}

CAnns == {NoAnn} \cup {S(d, 1) : d \in {0, 1}} \cup {Fc(d, 1, m) : d \in {0, 1}, m \in {0, 1}}
RAnns == {NoAnn} \cup {S(d, a) : d \in {0, 1, 2}, a \in {1, 2}} \cup {Fc(d, a, m) : d \in {0, 1, 2}, a \in {3}, m \in {0, 1, 2, 3}}
=============================================================================
