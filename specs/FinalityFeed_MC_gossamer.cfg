SPECIFICATION Spec
CONSTANTS
  N = 5
  Cap = 2
  Mode = "gossamer"
INVARIANTS NoDuplicates OnlyIssued ChanBound Accounted DropsNeedFullChannel PromptIsExact OutcomePossible RequiredImpliesPossible
PROPERTY Eventually
CHECK_DEADLOCK FALSE
