SPECIFICATION SpecRand
CONSTANTS
  Keys <- NKeys
  Vals <- NVals
  Prefixes <- NPrefixes
  Limits <- NLimits
  OpKinds <- ClearKinds
  FreezeParents = FALSE
  MaxHandles = 1
  Depth = 24
INVARIANT Dump
CHECK_DEADLOCK FALSE
