SPECIFICATION SpecAll
CONSTANTS
  MaxAdd = 4
  Prims <- BothPrims
  Arrivals <- TwoArrivals
  HashRank <- GHashRank
  FreeIds = TRUE
  OpKinds <- StructKinds
  PhaseAdds = 0
  ObsKind = "none"
  Depth = 5
INVARIANTS TypeOK LiveExact LeavesChildless BestIsBestLeaf
VIEW View
CHECK_DEADLOCK FALSE
