SPECIFICATION CtSpec
CONSTANTS
  Types <- NoTypes
  CaseKinds <- BothKinds
  Depth = 1
  RandDepth = 1
  TyNames <- C14AllNames
INVARIANTS TypeOK CtLaws CtHashSeparates CtAnnounceIsHeaderPlusBool CtConsensusEmbeds CtGossipTags CtPrimWidths
CHECK_DEADLOCK FALSE
