SPECIFICATION CtSpec
CONSTANTS
  Types <- NoTypes
  CaseKinds <- BothKinds
  Depth = 1
  RandDepth = 1
  TyNames <- C14Names
INVARIANTS TypeOK CtLaws CtHashSeparates CtAnnounceIsHeaderPlusBool
CHECK_DEADLOCK FALSE
