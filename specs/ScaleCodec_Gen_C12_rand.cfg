SPECIFICATION SpecRand
CONSTANTS
  Types <- LeafSet
  CaseKinds <- OnlyDec
  Depth = 20
  RandDepth = 2
INVARIANT Dump
CHECK_DEADLOCK FALSE
