---------------------------- MODULE AuthoritySet ----------------------------
(***************************************************************************)
(* C23 "Authority set changes are applied as Substrate applies them".      *)
(*                                                                         *)
(* The state machine is Substrate's AuthoritySet (client/consensus/grandpa *)
(* authorities.rs + utils/fork-tree) over a block tree that grows by       *)
(* Import and is cut by Finalise; every block tree with announcements at   *)
(* arbitrary blocks and delays, in every parent-first import order and     *)
(* every finalisation order, is a behaviour (statement, sentence 1).       *)
(*                                                                         *)
(*   st.par, st.ann   the block tree (ChangeForest) and the announcement   *)
(*                    [k, d, a, m] carried by each block: kind "N" none,   *)
(*                    "S" scheduled (standard), "F" forced; delay d;       *)
(*                    authority list id a; m = median last finalised       *)
(*                    (forced only).  effective number = number + d.       *)
(*   st.rej           blocks whose import was rejected                     *)
(*   st.fin           last finalised block                                 *)
(*   st.setId, st.auths (auths[s+1] = list id of set s),                   *)
(*   st.lastOf        (lastOf[s+1] = number of the last block of set s,    *)
(*                    Substrate authority_set_changes)                     *)
(*   st.pstd          blocks with a pending standard change (the fork tree *)
(*                    is the ancestry relation on this set)                *)
(*   st.pfor          blocks with a pending forced change                  *)
(*   st.applied, st.wiped   ghost: applied changes [blk, k, at]; changes   *)
(*                    discarded because a forced change was applied        *)
(*                                                                         *)
(* Sentence 2 of the statement is what the actions do:                     *)
(*   "a scheduled change takes effect when its effective block on the      *)
(*    announcing fork is finalised"            -> FinaliseApply            *)
(*   "a forced change when its effective block is imported"                *)
(*                                             -> ImportApply (cand)       *)
(*   "at most one forced change is pending per fork"                       *)
(*                                             -> ImportApply (dupF)       *)
(*   "changes on abandoned forks are discarded"-> Retain in FinaliseApply  *)
(*   "set ids grow by one per change"          -> both, and SetIdStep      *)
(*                                                                         *)
(* Left unconstrained (no behaviour generated, nothing compared), because  *)
(* the statement does not pin it down or Substrate's own answer is an      *)
(* error that aborts finalisation:                                         *)
(*   - finalising past the effective block of a pending standard change    *)
(*     on that chain (the voter never does it: current_limit),             *)
(*   - finalising a block that lies beyond a pending child change of the   *)
(*     change being applied (fork-tree UnfinalizedAncestor),               *)
(*   - finalising a block at or above a block that announces a still       *)
(*     pending forced change (Substrate keeps or drops it depending on     *)
(*     unrelated pruning),                                                 *)
(*   - more than one announcement per block,                               *)
(*   - the internal order of the pending forced changes,                   *)
(*   - the set id of a block number when lastOf is not increasing.         *)
(***************************************************************************)
EXTENDS ChangeForest, DigestLayerOps, TLC, Json

CONSTANTS MaxBlocks,   \* bound on the number of imported blocks
          MaxAnn,      \* bound on the number of announcements in the tree
          Anns,        \* set of announcement records that may be attached to a block
          Depth,       \* behaviour length (generator)
          Record       \* TRUE: keep the history (generator); FALSE: model checking only

VARIABLES st, hist, done
vars == <<st, hist, done>>

NoAnn == [k |-> "N", d |-> 0, a |-> 0, m |-> 0]

Num(s, b) == CFNum(s.par, b)
Eff(s, b) == Num(s, b) + s.ann[b].d
Live(s, b) == b \notin s.rej /\ CFAncEq(s.par, s.fin, b)
LiveBlocks(s) == {b \in CFBlocks(s.par) : Live(s, b)}
AnnCount(s) == Cardinality({b \in 1..Len(s.par) : s.ann[b].k # "N"})

InitState == [par |-> <<>>, ann |-> <<>>, rej |-> {}, fin |-> 0, setId |-> 0, auths |-> <<0>>,
              lastOf |-> <<>>, pstd |-> {}, pfor |-> {}, applied |-> <<>>, wiped |-> {}]

--------------------------------------------------------------------------
(* ---- Import: add_pending_change, then apply_forced_changes ----------- *)

ImportApply(s, p, a) ==
  LET b == Len(s.par) + 1
      s1 == [s EXCEPT !.par = Append(@, p), !.ann = Append(@, a)]
      \* add_forced_change: "at most one forced change is pending per fork"
      dupF == a.k = "F" /\ \E c \in s.pfor : CFAnc(s1.par, c, b)
      pstd1 == IF a.k = "S" THEN s.pstd \cup {b} ELSE s.pstd
      pfor1 == IF a.k = "F" THEN s.pfor \cup {b} ELSE s.pfor
      s2 == [s1 EXCEPT !.pstd = pstd1, !.pfor = pfor1]
      \* apply_forced_changes: effective number = number of the imported block, same branch
      cand == {c \in pfor1 : Eff(s2, c) = Num(s2, b) /\ CFAncEq(s2.par, c, b)}
      Reject(why) == [s |-> [s1 EXCEPT !.rej = @ \cup {b}], res |-> why]
  IN IF dupF THEN Reject("err-forced-pending")
     ELSE IF cand = {} THEN [s |-> s2, res |-> "ok"]
     ELSE LET c == CHOOSE x \in cand : TRUE
              \* a pending standard change the forced change depends on
              dep == \E r \in CFRoots(s2.par, pstd1) :
                        Eff(s2, r) <= s2.ann[c].m /\ CFAnc(s2.par, r, c)
          IN IF dep THEN Reject("err-forced-dependency")
             ELSE [s |-> [s2 EXCEPT !.lastOf = Append(@, s2.ann[c].m),
                                    !.setId = @ + 1,
                                    !.auths = Append(@, s2.ann[c].a),
                                    !.pstd = {}, !.pfor = {},
                                    !.applied = Append(@, [blk |-> c, k |-> "F", at |-> b]),
                                    !.wiped = @ \cup pstd1 \cup (pfor1 \ {c})],
                   res |-> "ok"]

ImportClass(s, a, r) ==
     a.k \o (IF r.res = "err-forced-pending" THEN "+dup"
             ELSE IF r.res = "err-forced-dependency" THEN "+dep"
             ELSE IF r.s.setId # s.setId THEN "+fapply" ELSE "")

--------------------------------------------------------------------------
(* ---- Finalise: apply_standard_changes (finalize_with_descendent_if) -- *)

Applicable(s, b) == {r \in CFRoots(s.par, s.pstd) : Eff(s, r) <= Num(s, b) /\ CFAncEq(s.par, r, b)}

(* fork-tree: roots kept after finalising b: descendants of b, b itself, ancestors of b *)
Retain(s, b, x) == (Num(s, x) > Num(s, b) /\ CFAnc(s.par, b, x)) \/ x = b \/ CFAnc(s.par, x, b)

FinaliseApply(s, b) ==
  LET P == s.pstd
      A == Applicable(s, b)
      keepF == {c \in s.pfor : Eff(s, c) > Num(s, b) /\ CFAnc(s.par, b, c)}
  IN IF A # {}
     THEN LET r == CHOOSE x \in A : TRUE
              P1 == CFBelow(s.par, P, r)
              P2 == {x \in P1 : Retain(s, b, CFRootOf(s.par, P1, x))}
          IN [s EXCEPT !.fin = b, !.pstd = P2, !.pfor = keepF,
                       !.lastOf = Append(@, Num(s, b)), !.setId = @ + 1,
                       !.auths = Append(@, s.ann[r].a),
                       !.applied = Append(@, [blk |-> r, k |-> "S", at |-> b])]
     ELSE LET P2 == {x \in P : Retain(s, b, CFRootOf(s.par, P, x))}
          IN [s EXCEPT !.fin = b, !.pstd = P2, !.pfor = IF P2 # P THEN keepF ELSE @]

(* histories the statement pins down (see module header) *)
VoterProducible(s, b) == \A r \in CFRoots(s.par, s.pstd) : CFAncEq(s.par, r, b) => Eff(s, r) >= Num(s, b)
UnfinalizedAncestor(s, b) ==
  \E r \in Applicable(s, b) : \E c \in CFChildren(s.par, s.pstd, r) :
      Num(s, c) <= Num(s, b) /\ CFAncEq(s.par, c, b)
ForcedBelow(s, b) == \E c \in s.pfor : CFAncEq(s.par, c, b)

FinaliseOK(s, b) == /\ Live(s, b) /\ b # s.fin
                    /\ VoterProducible(s, b) /\ ~UnfinalizedAncestor(s, b) /\ ~ForcedBelow(s, b)

FinaliseClass(s, b) ==
  (IF Applicable(s, b) # {} THEN "apply" ELSE "noapply")
  \o (IF \E r \in CFRoots(s.par, s.pstd) : CFAnc(s.par, r, b) /\ Eff(s, r) > Num(s, b) THEN "+keepanc" ELSE "")
  \o (IF \E x \in s.pstd : ~(CFAncEq(s.par, b, x) \/ CFAnc(s.par, x, b)) THEN "+dropS" ELSE "")
  \o (IF \E c \in s.pfor : ~CFAncEq(s.par, b, c) THEN "+dropF" ELSE "")

--------------------------------------------------------------------------
(* ---- observations ---------------------------------------------------- *)

(* Substrate AuthoritySetChanges::get_set_id: the first set whose last block is >= n, else the current set *)
SetIdAt(s, n) == LET S == {i \in 1..Len(s.lastOf) : s.lastOf[i] >= n}
                 IN IF S = {} THEN s.setId ELSE (CHOOSE i \in S : \A j \in S : i <= j) - 1
WellFormed(s) == \A i \in 1..Len(s.lastOf) : i > 1 => s.lastOf[i - 1] < s.lastOf[i]

(* voting limit on the chain of x: effective number of the pending root change that x has reached; *)
(* -1 none, -2 not compared (a forced change is pending on the chain)                              *)
Limit(s, x) == LET R == {r \in CFRoots(s.par, s.pstd) : CFAncEq(s.par, r, x) /\ Eff(s, r) <= Num(s, x)}
               IN IF \E c \in s.pfor : CFAncEq(s.par, c, x) THEN -2
                  ELSE IF R = {} THEN -1 ELSE Eff(s, CHOOSE r \in R : TRUE)

Obs(s) == [setId |-> s.setId, auths |-> s.auths, lastOf |-> s.lastOf, wf |-> WellFormed(s),
           setIdAt |-> [n \in 1..(MaxBlocks + 2) |-> SetIdAt(s, n - 1)],
           limits |-> LET L == CFSorted(LiveBlocks(s)) IN [i \in 1..Len(L) |-> <<L[i], Limit(s, L[i])>>],
           fin |-> s.fin, pstd |-> CFSorted(s.pstd), pfor |-> CFSorted(s.pfor)]

--------------------------------------------------------------------------
(* ---- the machine ------------------------------------------------------ *)

ImportOps(s) ==
  IF Len(s.par) >= MaxBlocks THEN {}
  ELSE {[op |-> "Import", p |-> p, a |-> a, b |-> 0] : p \in LiveBlocks(s),
           a \in {x \in Anns : /\ (x.k = "N" \/ AnnCount(s) < MaxAnn)} }
FinaliseOps(s) == {[op |-> "Finalise", p |-> 0, a |-> NoAnn, b |-> b] : b \in {x \in 1..Len(s.par) : FinaliseOK(s, x)}}
EnabledOps(s) == {o \in ImportOps(s) : o.a.k = "F" => o.a.m <= Num(s, o.p) + 1} \cup FinaliseOps(s)

Apply(s, o) == IF o.op = "Import"
               THEN LET r == ImportApply(s, o.p, o.a) IN [s |-> r.s, res |-> r.res, cls |-> IF Record THEN ImportClass(s, o.a, r) ELSE ""]
               ELSE [s |-> FinaliseApply(s, o.b), res |-> "ok", cls |-> IF Record THEN FinaliseClass(s, o.b) ELSE ""]

Init == st = InitState /\ hist = <<>> /\ done = FALSE

(* the header-digest dress of an Import (DigestLayerOps): drawn per step; the argument of RandomElement *)
(* mentions a variable so that TLC does not cache the draw                                               *)
LayoutOf(o) == IF o.op # "Import" THEN [name |-> "-", items |-> <<>>, babe |-> 0]
               ELSE LET l == RandomElement({x \in DlLayouts(o.a.k) : Len(hist) >= 0})
                        items == DlLayout(o.a, l)
                    IN [name |-> l, items |-> items, babe |-> DlBabeCalls(items)]

Step(o) == /\ ~done /\ Len(hist) < Depth
           /\ LET r == Apply(st, o)
              IN /\ st' = r.s
                 /\ hist' = IF Record THEN Append(hist, [o |-> o, res |-> r.res, cls |-> r.cls, obs |-> Obs(r.s),
                                                         lay |-> LayoutOf(o)])
                            ELSE Append(hist, 0)
           /\ UNCHANGED done

Finish == /\ ~done /\ (Len(hist) >= Depth \/ EnabledOps(st) = {})
          /\ done' = TRUE /\ UNCHANGED <<st, hist>>

NextAll == (\E o \in EnabledOps(st) : Step(o)) \/ Finish

(* generator: one successor per step; every RandomElement argument depends on a variable *)
Dice == RandomElement({x \in 1..100 : Len(hist) >= 0})
PickOp ==
  LET E == EnabledOps(st)
      F == {o \in E : o.op = "Finalise"}
      w == Dice
      kd == IF w <= 50 THEN "N" ELSE IF w <= 78 THEN "S" ELSE "F"
      I == {o \in E : o.op = "Import" /\ o.a.k = kd}
  IN IF w <= 28 /\ F # {} THEN RandomElement(F)
     ELSE IF I # {} THEN RandomElement(I) ELSE RandomElement(E)
NextRand == (EnabledOps(st) # {} /\ Len(hist) < Depth /\ \E o \in {PickOp} : Step(o)) \/ Finish

SpecAll == Init /\ [][NextAll]_vars
SpecRand == Init /\ [][NextRand]_vars

Dump == done => PrintT(<<"TRACE", ToJson(hist)>>)
View == st

--------------------------------------------------------------------------
(* ---- what TLC checks on the specification (engine M) ------------------ *)

TypeOK == /\ Len(st.par) = Len(st.ann) /\ Len(st.par) <= MaxBlocks
          /\ \A b \in 1..Len(st.par) : st.par[b] < b
          /\ st.pstd \subseteq 1..Len(st.par) /\ st.pfor \subseteq 1..Len(st.par)
          /\ \A b \in st.pstd : st.ann[b].k = "S"
          /\ \A b \in st.pfor : st.ann[b].k = "F"

(* "set ids grow by one per change" *)
SetIdCounts == /\ st.setId = Len(st.lastOf) /\ st.setId = Len(st.auths) - 1 /\ st.setId = Len(st.applied)
SetIdStep == [][/\ st'.setId \in {st.setId, st.setId + 1}
                /\ Len(st'.applied) - Len(st.applied) = st'.setId - st.setId]_vars

(* "at most one forced change is pending per fork" *)
OneForcedPerFork == \A c1, c2 \in st.pfor : c1 # c2 => ~CFAnc(st.par, c1, c2)

(* "a scheduled change takes effect when its effective block on the announcing fork is finalised, *)
(*  a forced change when its effective block is imported"                                           *)
AppliedWhenEffective ==
  \A i \in 1..Len(st.applied) :
     LET e == st.applied[i]
     IN /\ CFAncEq(st.par, e.blk, e.at) /\ Num(st, e.at) = Eff(st, e.blk)
        /\ e.at \notin st.rej /\ e.blk \notin st.rej
        /\ e.k = "S" => CFAncEq(st.par, e.at, st.fin)
        /\ st.ann[e.blk].k = e.k /\ st.auths[i + 1] = st.ann[e.blk].a

(* "changes on abandoned forks are discarded" (standard changes; a forced change on an abandoned fork *)
(* can never be applied because its effective block can never be imported: AppliedWhenEffective)       *)
(* The fork tree is pruned at its roots (a whole subtree goes with its root), exactly as Substrate does. *)
NoPendingOnAbandoned == \A x \in CFRoots(st.par, st.pstd) : CFAncEq(st.par, st.fin, x) \/ CFAnc(st.par, x, st.fin)

(* nothing else is discarded: a standard change announced on the finalised chain or on a live fork stays *)
(* pending until it is applied or wiped by a forced change                                               *)
NoLoss == \A x \in 1..Len(st.par) :
            ( /\ st.ann[x].k = "S" /\ x \notin st.rej /\ x \notin st.wiped
              /\ \A i \in 1..Len(st.applied) : st.applied[i].blk # x
              /\ (CFAncEq(st.par, st.fin, x) \/ CFAnc(st.par, x, st.fin)) ) => x \in st.pstd

(* the effective block of a pending standard change on the finalised chain has not been finalised yet *)
PendingNotOverdue == \A r \in CFRoots(st.par, st.pstd) : CFAncEq(st.par, r, st.fin) => Eff(st, r) > Num(st, st.fin)

(* at most one root of the fork tree can be applied by a finalisation, at most one forced change by an import *)
UniqueApplicable == \A b \in LiveBlocks(st) : Cardinality(Applicable(st, b)) <= 1

(* the digest layer reduces every layout of an announcement to that announcement (state independent) *)
DigestLayerLaw == \A a \in Anns : DlLayoutLaw(a)

(* set id of a block number is monotone and ends at the current set *)
SetIdAtMonotone == WellFormed(st) =>
     /\ \A n \in 0..MaxBlocks : SetIdAt(st, n) <= SetIdAt(st, n + 1)
     /\ SetIdAt(st, MaxBlocks + 1) = st.setId
=============================================================================
