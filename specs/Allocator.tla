------------------------------ MODULE Allocator ------------------------------
(***************************************************************************)
(* C28 "The Wasm heap allocator never hands out overlapping memory"        *)
(* (lib/runtime/allocator/freeing_bump.go, a port of Substrate's           *)
(* FreeingBumpHeapAllocator).                                              *)
(*                                                                         *)
(* Addresses are counted in UNITS of 8 bytes (byte address = 8 * unit), so *)
(* that the real 4 GiB address space (2^29 units) fits TLC's 32-bit ints.  *)
(* A block of order o is one header unit followed by 2^o data units; the   *)
(* pointer handed to the caller is the first data unit.                    *)
(*                                                                         *)
(* State (one record `st`):                                                *)
(*   bumper   next never-used unit                                         *)
(*   heads    per-order free-list head (header unit, or Nil)               *)
(*   mem      linear memory, sparse: written unit -> word; an unwritten    *)
(*            unit reads as the all-zero word, which DECODES AS Free(0)    *)
(*   pages, memmax   current size of linear memory / the memory's own max  *)
(*   base     first unit of the heap (constructor rounds heap base up to 8) *)
(*   poisoned                                                              *)
(*   live     GHOST: set of [p, o] blocks handed out and not yet freed     *)
(*   blocks   GHOST: every block ever carved from the bumper, [h, o]       *)
(*                                                                         *)
(* Which sentence of the property each operator implements:                *)
(*  "each returned pointer is 8-byte aligned"         -> pointers are unit *)
(*        addresses (structural); the harness checks ptr % 8 on real code  *)
(*  "lies above the heap base"                        -> AboveBase         *)
(*  "with its whole rounded-up block inside linear memory" -> InsideMem    *)
(*  "never overlaps another live allocation"          -> NoOverlap,        *)
(*                                                       FreshAllocation   *)
(*  "Bytes written to a live allocation are unaffected by other            *)
(*   allocations and frees"                           -> DataIntact,       *)
(*                                                       DataStable        *)
(*  "Freeing an invalid or already-freed pointer fails and poisons the     *)
(*   allocator"                                       -> InvalidFreePoisons*)
(*                                                       PoisonSticks      *)
(*  "requests above 32 MiB fail"                      -> OversizeFails     *)
(*  "memory never grows past 4 GiB"                   -> PagesBound        *)
(*                                                                         *)
(* Deliberately left open (the statement does not pin it down):            *)
(*  - whether a FAILED ALLOCATION (oversize, out of space, cannot grow)    *)
(*    poisons the allocator: AllocFailPoisons is the set of allowed        *)
(*    outcomes ({TRUE, FALSE} in engine M); generated behaviours END at a  *)
(*    failed allocation so nothing after it is compared;                   *)
(*  - which error is returned: only success/failure is an observation;     *)
(*  - whether a block that would end EXACTLY at the 4 GiB limit is handed  *)
(*    out (the statement never requires an allocation to succeed; the end  *)
(*    of such a block is not representable in a 32-bit bumper): TopFits is *)
(*    the set of allowed outcomes; a generated behaviour expects success   *)
(*    (class "bump-top") and the harness accepts a refusal there, ending   *)
(*    the behaviour.  What is NOT open: after such a block every further   *)
(*    bump must fail (out of space).                                       *)
(* Pinned although the statement does not (by the design brief, C28 "as    *)
(* the algorithm"): the exact pointer (first-fit from the per-order LIFO   *)
(* free list, else bump) and the page-growth policy (double, at least the  *)
(* requirement, at most MaxPages).                                         *)
(*                                                                         *)
(* Invalid frees are modelled for the classes in which the 8 bytes before  *)
(* the pointer cannot be mistaken for an occupied header: pointer < 8,     *)
(* header word outside linear memory, never-written (zero) memory, the     *)
(* header of a block that is on a free list (double free), and user data   *)
(* whose words have bit 32 clear (IDEALISATION: the harness writes only    *)
(* even bytes, and four zero bytes at the end of every block; a caller can *)
(* forge a header inside its own data, that is inherent to the design and  *)
(* outside the statement).  Unaligned pointers  *)
(* (never handed out, hence invalid) must fail wherever they point: class  *)
(* "unaligned" when the 8 bytes before them are never-written memory,      *)
(* "unaligned-at-block" when they straddle a block header and its          *)
(* neighbouring data.                                                      *)
(***************************************************************************)
EXTENDS Integers, Sequences, FiniteSets, TLC, Json

CONSTANTS NumOrders,        \* number of size classes (real: 23, blocks of 8 B .. 32 MiB)
          PageUnits,        \* units per Wasm page (real: 8192 = 64 KiB)
          MaxPages,         \* the allocator's absolute page limit (real: 65536 = 4 GiB)
          Inits,            \* set of [bu, bb, pages, memmax, sizes, fw, iw]: heap base = 8*bu + bb bytes,
                            \* initial / maximal pages of the linear memory, request sizes in bytes used
                            \* in this behaviour, generator weights (out of 60) of freeing a live block
                            \* and of trying an invalid free
          ModelData,        \* TRUE: the caller's data words are kept in mem (engine M)
          AllocFailPoisons, \* allowed values of poisoned after a failed allocation
          TopFits,          \* allowed outcomes (TRUE = succeeds) for a block ending exactly at MaxPages
          Depth             \* behaviour length

VARIABLES st, hist, done, after

vars == <<st, hist, done, after>>

Nil == -1
Pow(o) == 2 ^ o
MaxAllocBytes == 8 * Pow(NumOrders - 1)
Orders == 0..(NumOrders - 1)
Max2(a, b) == IF a > b THEN a ELSE b
Min2(a, b) == IF a < b THEN a ELSE b
CeilDiv(a, b) == (a + b - 1) \div b

(* words *)
Occ(o) == [t |-> "occ", v |-> o]
Fre(l) == [t |-> "free", v |-> l]
Dat(p) == [t |-> "dat", v |-> p]
Zero == Fre(0)
Rd(m, u) == IF u \in DOMAIN m THEN m[u] ELSE Zero
MemSet(m, W) == [x \in DOMAIN m \cup DOMAIN W |-> IF x \in DOMAIN W THEN W[x] ELSE m[x]]

(* "whatever size is passed is rounded to the next power of two, at least 8 bytes" *)
OrderOf(size) == CHOOSE o \in Orders : 8 * Pow(o) >= size /\ (o = 0 \/ 8 * Pow(o - 1) < size)

InitState(i) ==
  LET b == i.bu + (IF i.bb > 0 THEN 1 ELSE 0) IN
  [bumper |-> b, heads |-> [o \in Orders |-> Nil], mem |-> <<>>, pages |-> i.pages, memmax |-> i.memmax,
   base |-> b, poisoned |-> FALSE, live |-> {}, blocks |-> {}, sizes |-> i.sizes, fw |-> i.fw, iw |-> i.iw]

MemUnits(s) == s.pages * PageUnits

--------------------------------------------------------------------------
(* ---- Allocate ---------------------------------------------------------- *)
(* returns [s |-> new state, ok, p |-> pointer unit, cls |-> class]        *)

Fill(p, o) == IF ModelData THEN [u \in p..(p + Pow(o) - 1) |-> Dat(p)] ELSE <<>>

AllocFail(s, cls, pz) == [s |-> [s EXCEPT !.poisoned = pz], ok |-> FALSE, p |-> 0, cls |-> cls]

DoAlloc(s, size, pz, tf) ==
  IF s.poisoned THEN [s |-> s, ok |-> FALSE, p |-> 0, cls |-> "poisoned"]
  \* TLC integers are 32-bit signed: a NEGATIVE size stands for the unsigned 32-bit request 2^32 + size (2^31 .. 2^32-1)
  ELSE IF size > MaxAllocBytes \/ size < 0 THEN AllocFail(s, "oversize", pz)
  ELSE
    LET o == OrderOf(size)
        h == s.heads[o]
    IN IF h # Nil
       THEN (* pop the head of the order's free list *)
            LET w == Rd(s.mem, h) IN
            IF h + 1 + Pow(o) > MemUnits(s) \/ w.t # "free"
            THEN AllocFail(s, "corrupt", pz)
            ELSE [s |-> [s EXCEPT !.heads[o] = w.v,
                                  !.mem = MemSet(s.mem, [u \in {h} |-> Occ(o)] @@ Fill(h + 1, o)),
                                  !.live = @ \cup {[p |-> h + 1, o |-> o]}],
                  ok |-> TRUE, p |-> h + 1, cls |-> "reuse"]
       ELSE (* bump *)
            LET req == s.bumper + 1 + Pow(o)
                grow == req > MemUnits(s)
                reqPages == CeilDiv(req, PageUnits)
                next == Max2(Min2(2 * s.pages, MaxPages), reqPages)
                h2 == s.bumper
            IN IF grow /\ (s.pages >= MaxPages \/ reqPages > MaxPages) THEN AllocFail(s, "out-of-space", pz)
               ELSE IF req = MaxPages * PageUnits /\ ~tf THEN AllocFail(s, "bump-top", pz)
               ELSE IF grow /\ next > s.memmax THEN AllocFail(s, "cannot-grow", pz)
               ELSE [s |-> [s EXCEPT !.bumper = req,
                                     !.pages = IF grow THEN next ELSE @,
                                     !.mem = MemSet(s.mem, [u \in {h2} |-> Occ(o)] @@ Fill(h2 + 1, o)),
                                     !.live = @ \cup {[p |-> h2 + 1, o |-> o]},
                                     !.blocks = @ \cup {[h |-> h2, o |-> o]}],
                     ok |-> TRUE, p |-> h2 + 1,
                     cls |-> IF req = MaxPages * PageUnits THEN "bump-top" ELSE IF grow THEN "bump-grow" ELSE "bump"]

--------------------------------------------------------------------------
(* ---- Deallocate(ptr = 8*u + b) ----------------------------------------- *)

(* where an unaligned pointer 8u+b (b > 0) has only never-written memory before it *)
UnalignedOK(s, u) == u = 0 \/ u - 1 >= s.bumper \/ u < s.base

FreeClass(s, u, b) ==
  IF s.poisoned THEN "poisoned"
  ELSE IF \E a \in s.live : a.p = u /\ b = 0 THEN "live"
  ELSE IF u = 0 THEN "below-8"
  ELSE IF b # 0 THEN (IF UnalignedOK(s, u) THEN "unaligned" ELSE "unaligned-at-block")
  ELSE IF u > MemUnits(s) THEN "out-of-range"
  ELSE IF \E k \in s.blocks : k.h = u - 1 THEN "double-free"
  ELSE IF u - 1 < s.base THEN "below-base"
  ELSE IF u - 1 >= s.bumper THEN "untouched"
  ELSE "interior"

DoFree(s, u, b) ==
  LET cls == FreeClass(s, u, b)
      bad == [s |-> [s EXCEPT !.poisoned = TRUE], ok |-> FALSE, p |-> 0, cls |-> cls]
  IN IF s.poisoned THEN [s |-> s, ok |-> FALSE, p |-> 0, cls |-> cls]
     ELSE IF b # 0 \/ u < 1 \/ u > MemUnits(s) THEN bad
     ELSE LET w == Rd(s.mem, u - 1) IN
          IF w.t # "occ" THEN bad
          ELSE [s |-> [s EXCEPT !.heads[w.v] = u - 1,
                                !.mem = MemSet(s.mem, [x \in {u - 1} |-> Fre(s.heads[w.v])]),
                                !.live = {a \in @ : a.p # u}],
                ok |-> TRUE, p |-> 0, cls |-> cls]

--------------------------------------------------------------------------
(* ---- operations and behaviours ----------------------------------------- *)

TopUnit == MaxPages * PageUnits

Apply(s, o, pz, tf) ==
  IF o.op = "Allocate" THEN DoAlloc(s, o.size, pz, tf) ELSE DoFree(s, o.u, o.b)

Rec(o, r) == [o |-> o, r |-> [ok |-> r.ok, p |-> r.p, cls |-> r.cls],
              s |-> [poisoned |-> r.s.poisoned, pages |-> r.s.pages, bumper |-> r.s.bumper,
                     nlive |-> Cardinality(r.s.live)]]

Step(o) ==
  /\ ~done
  /\ Len(hist) < Depth
  /\ \E ch \in (IF o.op = "Allocate" THEN AllocFailPoisons \X TopFits ELSE {<<TRUE, TRUE>>}) :
       \E r \in {Apply(st, o, ch[1], ch[2])} :
       /\ st' = r.s
       /\ hist' = Append(hist, Rec(o, r))
       /\ after' = IF st.poisoned THEN after + 1
                   ELSE IF o.op = "Allocate" /\ ~r.ok THEN 3
                   ELSE IF r.s.poisoned THEN 1 ELSE 0
  /\ UNCHANGED done

(* a generated behaviour ends at Depth, two operations after the allocator was      *)
(* poisoned by a free, and immediately after a failed allocation (continuation      *)
(* unspecified)                                                                     *)
Finish == /\ ~done /\ (Len(hist) = Depth \/ after >= 3) /\ done' = TRUE /\ UNCHANGED <<st, hist, after>>

NewOp(i) == [op |-> "New", bu |-> i.bu, bb |-> i.bb, pages |-> i.pages, memmax |-> i.memmax]

Init == /\ \E i \in Inits :
             /\ st = InitState(i)
             /\ hist = <<[o |-> NewOp(i), r |-> [ok |-> TRUE, p |-> 0, cls |-> "new"],
                         s |-> [poisoned |-> FALSE, pages |-> i.pages, bumper |-> InitState(i).bumper, nlive |-> 0]]>>
        /\ done = FALSE
        /\ after = 0

(* engine M: every operation on every pointer of the (small) address space, aligned *)
(* and unaligned (once poisoned nothing can change: a few pointers suffice there)   *)
FreeTargets(s) == IF s.poisoned THEN {a.p : a \in s.live} \cup {0, s.base + 1} ELSE 0..(TopUnit + 1)
AllOps(s) ==
       {[op |-> "Allocate", size |-> z] : z \in s.sizes}
  \cup {[op |-> "Deallocate", u |-> u, b |-> b] : u \in FreeTargets(s), b \in {0, 4}}
NextAll == \E o \in AllOps(st) : Step(o)

(* engine G: one randomly drawn operation per step (single successor) *)
(* invalid pointers are drawn from four pools (pool first, then uniformly inside it) *)
InvalidPools(s) ==
  LET lp == {a.p : a \in s.live}
      al == {0, s.base, s.base + 1, s.bumper + 1, s.bumper + 2, s.bumper + 5, MemUnits(s), MemUnits(s) + 1, MemUnits(s) + 7}
            \cup {k.h + 1 : k \in s.blocks}                                   \* freed blocks: double free
            \cup {a.p + 1 : a \in {x \in s.live : x.o > 0}}                   \* inside a live block
            \cup {a.p + Pow(a.o) : a \in s.live}                              \* last data unit read as header
            \cup {a.p + Pow(a.o) - 1 : a \in {x \in s.live : x.o > 1}}
      un == {u \in {0, s.bumper + 1, s.bumper + 3, MemUnits(s), MemUnits(s) + 1, s.base - 1} : u >= 0 /\ UnalignedOK(s, u)}
      fits(S) == {c \in S : c.u >= 0 /\ c.u < 536870912}
  IN << fits({[u |-> u, b |-> 0] : u \in al \ lp}),
        fits({[u |-> u, b |-> b] : u \in un, b \in {1, 4, 5, 7}}),
        (* the 8 bytes before the pointer are the tail of the previous block and the first half of a header *)
        fits({[u |-> k.h, b |-> 4] : k \in s.blocks}),
        fits({[u |-> k.h, b |-> b] : k \in s.blocks, b \in {1, 5, 7}} \cup {[u |-> k.h + 1, b |-> b] : k \in s.blocks, b \in {1, 4}}) >>

(* NB the argument of every RandomElement depends on a variable: TLC caches  *)
(* constant-level expressions, a constant set would yield one fixed draw.   *)
PickOp(s) ==
  LET r == RandomElement({x \in 1..60 : Len(hist) >= 0})
      lp == {a.p : a \in s.live}
      pools == InvalidPools(s)
      ne == {i \in 1..4 : pools[i] # {}}
  IN IF r <= s.iw /\ ne # {}
       THEN LET c == RandomElement(pools[RandomElement(ne)]) IN [op |-> "Deallocate", u |-> c.u, b |-> c.b]
     ELSE IF r <= s.iw + s.fw /\ lp # {}
       THEN [op |-> "Deallocate", u |-> RandomElement(lp), b |-> 0]
     ELSE [op |-> "Allocate", size |-> RandomElement(s.sizes)]
NextRand == (\E o \in {PickOp(st)} : after < 3 /\ Step(o)) \/ Finish

SpecAll == Init /\ [][NextAll]_vars
SpecRand == Init /\ [][NextRand]_vars

Dump == done => PrintT(<<"TRACE", ToJson(hist)>>)

--------------------------------------------------------------------------
(* ---- properties of the specification (engine M) ------------------------ *)

End(a) == a.p + Pow(a.o)          \* first unit after the block

TypeOK ==
  /\ st.bumper \in st.base..TopUnit
  /\ st.pages \in 0..MaxPages
  /\ st.poisoned \in BOOLEAN
  /\ \A o \in Orders : st.heads[o] = Nil \/ st.heads[o] \in st.base..(st.bumper - 1)
  /\ \A a \in st.live : a.o \in Orders

(* "never overlaps another live allocation" -- header included *)
NoOverlap == \A a, b \in st.live : a # b => (End(a) <= b.p - 1 \/ End(b) <= a.p - 1)
(* "lies above the heap base" *)
AboveBase == \A a \in st.live : a.p - 1 >= st.base
(* "with its whole rounded-up block inside linear memory" *)
InsideMem == \A a \in st.live : End(a) <= MemUnits(st) /\ End(a) <= st.bumper
(* "memory never grows past 4 GiB" (and never past what the memory allows) *)
PagesBound == st.pages <= MaxPages /\ st.pages <= st.memmax
(* "Bytes written to a live allocation are unaffected by other allocations and frees" *)
DataIntact == ModelData => \A a \in st.live : \A u \in a.p..(End(a) - 1) : Rd(st.mem, u) = Dat(a.p)

(* inductive strengthening: the carved blocks tile [base, bumper); each is either *)
(* live with an occupied header or on exactly one free list (of its order) once   *)
RECURSIVE Chain(_, _, _)
Chain(m, h, n) == IF h = Nil \/ n = 0 THEN <<>> ELSE <<h>> \o Chain(m, Rd(m, h).v, n - 1)
FreeSeq(o) == Chain(st.mem, st.heads[o], Cardinality(st.blocks) + 1)
RECURSIVE SumSizes(_)
SumSizes(B) == IF B = {} THEN 0 ELSE LET k == CHOOSE x \in B : TRUE IN 1 + Pow(k.o) + SumSizes(B \ {k})
Structure ==
  /\ SumSizes(st.blocks) = st.bumper - st.base
  /\ \A k1, k2 \in st.blocks : k1 # k2 => (k1.h + 1 + Pow(k1.o) <= k2.h \/ k2.h + 1 + Pow(k2.o) <= k1.h)
  /\ \A a \in st.live : [h |-> a.p - 1, o |-> a.o] \in st.blocks /\ Rd(st.mem, a.p - 1) = Occ(a.o)
  /\ \A o \in Orders :
       LET c == FreeSeq(o) IN
       /\ Len(c) <= Cardinality(st.blocks)
       /\ \A i, j \in 1..Len(c) : i # j => c[i] # c[j]
       /\ \A i \in 1..Len(c) : /\ [h |-> c[i], o |-> o] \in st.blocks
                               /\ Rd(st.mem, c[i]).t = "free"
                               /\ ~\E a \in st.live : a.p = c[i] + 1
  /\ \A k \in st.blocks : (\E a \in st.live : a.p = k.h + 1) \/ (\E i \in 1..Len(FreeSeq(k.o)) : FreeSeq(k.o)[i] = k.h)

(* action properties, phrased over the last history record *)
Last == hist'[Len(hist')]
Stepped == Len(hist') > Len(hist)

(* "requests above 32 MiB fail" (and change nothing but possibly the poison flag) *)
OversizeFails == [][(Stepped /\ Last.o.op = "Allocate" /\ (Last.o.size > MaxAllocBytes \/ Last.o.size < 0))
                      => (~Last.r.ok /\ [st' EXCEPT !.poisoned = st.poisoned] = st)]_vars

(* "Freeing an invalid or already-freed pointer fails and poisons the allocator" *)
InvalidFreePoisons ==
  [][(Stepped /\ Last.o.op = "Deallocate" /\ ~(Last.o.b = 0 /\ \E a \in st.live : a.p = Last.o.u))
       => (~Last.r.ok /\ st'.poisoned /\ [st' EXCEPT !.poisoned = st.poisoned] = st)]_vars

(* a valid free succeeds, releases exactly that block and does not poison *)
ValidFree ==
  [][(Stepped /\ Last.o.op = "Deallocate" /\ ~st.poisoned /\ Last.o.b = 0 /\ \E a \in st.live : a.p = Last.o.u)
       => (Last.r.ok /\ ~st'.poisoned /\ st'.live = {a \in st.live : a.p # Last.o.u})]_vars

(* once poisoned, every request fails and nothing changes *)
PoisonSticks == [][(Stepped /\ st.poisoned) => (~Last.r.ok /\ st' = st)]_vars

(* a successful allocation returns a block of the rounded-up size that is disjoint *)
(* from every block live before it, above the base and inside memory               *)
FreshAllocation ==
  [][(Stepped /\ Last.o.op = "Allocate" /\ Last.r.ok) =>
       LET n == [p |-> Last.r.p, o |-> OrderOf(Last.o.size)] IN
       /\ 8 * Pow(n.o) >= Last.o.size
       /\ st'.live = st.live \cup {n} /\ n \notin st.live
       /\ n.p - 1 >= st.base /\ End(n) <= MemUnits(st')
       /\ \A a \in st.live : End(a) <= n.p - 1 \/ End(n) <= a.p - 1]_vars

(* "Bytes written to a live allocation are unaffected by other allocations and frees" *)
DataStable ==
  [][ModelData => \A a \in st.live \cap st'.live : \A u \in a.p..(End(a) - 1) : Rd(st'.mem, u) = Rd(st.mem, u)]_vars

PagesMonotone == [][st'.pages >= st.pages /\ st'.bumper >= st.bumper]_vars

View == st
=============================================================================
