-------------------------------- MODULE LRU --------------------------------
(* Sequential machine over LRUOps (C35): engines M and G.  See LRUOps.     *)
EXTENDS LRUOps

CONSTANTS LKeys, LVals, Caps, Depth

VARIABLES cache, hist, done
vars == <<cache, hist, done>>

Ops == {[op |-> "Get", k |-> k] : k \in LKeys} \cup {[op |-> "Put", k |-> k, v |-> v] : k \in LKeys, v \in LVals}

Apply(c, o) == IF o.op = "Get" THEN LGet(c, o.k) ELSE LPut(c, o.k, o.v)
Result(c, o) == IF o.op = "Get" THEN LGetRes(c, o.k) ELSE 0

Step(o) ==
  /\ ~done /\ Len(hist) < Depth
  /\ cache' = Apply(cache, o)
  /\ hist' = Append(hist, [o |-> o, res |-> Result(cache, o),
                           obs |-> [order |-> cache'.order, vals |-> [i \in 1..Len(cache'.order) |-> cache'.val[cache'.order[i]]]]])
  /\ UNCHANGED done

Finish == ~done /\ Len(hist) = Depth /\ done' = TRUE /\ UNCHANGED <<cache, hist>>

Init == /\ cache \in {EmptyCache(c) : c \in Caps}
        /\ hist = <<>> /\ done = FALSE

NextAll == (\E o \in Ops : Step(o)) \/ Finish
(* RandomElement over a state-dependent set: a constant-level expression   *)
(* would be evaluated once and cached by TLC (same operation every step)   *)
NextRand == (\E o \in {RandomElement({x \in Ops : Len(hist) >= 0})} : Step(o)) \/ Finish
SpecAll == Init /\ [][NextAll]_vars
SpecRand == Init /\ [][NextRand]_vars

Dump == done => PrintT(<<"TRACE", ToJson([cap |-> cache.cap, steps |-> hist])>>)

(* ---- properties of the specification ---------------------------------- *)
Bounded == Len(cache.order) <= cache.cap
NoDup == \A i, j \in 1..Len(cache.order) : i # j => cache.order[i] # cache.order[j]
DomOK == DOMAIN cache.val = {cache.order[i] : i \in 1..Len(cache.order)}
(* a put of a new key into a full cache evicts exactly the least recently  *)
(* used key; nothing else ever disappears; a get never changes membership  *)
Keyset(c) == {c.order[i] : i \in 1..Len(c.order)}
EvictsLRU ==
  [][\A o \in Ops : (hist' # hist /\ hist'[Len(hist')].o = o) =>
        /\ (o.op = "Get" => Keyset(cache') = Keyset(cache) /\ cache'.val = cache.val)
        /\ (o.op = "Put" /\ o.k \notin Keyset(cache) /\ Len(cache.order) = cache.cap =>
              Keyset(cache') = (Keyset(cache) \ {cache.order[Len(cache.order)]}) \cup {o.k})
        /\ (o.op = "Put" /\ (o.k \in Keyset(cache) \/ Len(cache.order) < cache.cap) =>
              Keyset(cache') = Keyset(cache) \cup {o.k})
        /\ (Len(cache'.order) > 0 => cache'.order[1] = o.k \/ (o.op = "Get" /\ o.k \notin Keyset(cache)))]_vars
View == cache
=============================================================================
