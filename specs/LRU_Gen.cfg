SPECIFICATION SpecRand
CONSTANTS
  LKeys = {1, 2, 3, 4, 5, 6, 7, 8, 9, 10}
  LVals = {1, 2, 3}
  Caps = {1, 2, 3, 4, 5, 6, 7, 8}
  Depth = 40
INVARIANT Dump
CHECK_DEADLOCK FALSE
