--------------------------- MODULE FullSyncMonitor ---------------------------
(***************************************************************************)
(* C32, engine M: the monitor as a state machine.  Deliver(r) hands a      *)
(* response to full sync, Import(b) is full sync handing block b to the    *)
(* importer, enabled exactly when the monitor calls it Legal.  TLC checks  *)
(* on all forests of NB blocks and all responses up to RespLen entries     *)
(* that every behaviour the monitor accepts has the listed property:       *)
(*   ParentsFirst   every imported block's parent is genesis or was        *)
(*                  imported earlier;                                      *)
(*   NeverTwice     no block is imported twice;                            *)
(*   OnlyFromValid  every imported block was delivered in a response that  *)
(*                  is a hash-linked chain with honest stated hashes, so a *)
(*                  block seen only in responses that must be rejected is  *)
(*                  never imported;                                        *)
(* and, so that the monitor is not vacuous,                                *)
(*   CanImportAll   (negated as an invariant in a separate config it       *)
(*                  yields a witness) a state where every block of the     *)
(*                  forest is imported is reachable.                       *)
(***************************************************************************)
EXTENDS FullSyncOps

CONSTANTS NB,        \* non-genesis blocks
          RespLen,   \* longest response
          MaxDeliver \* responses delivered per behaviour

VARIABLES par, delivered, known, offered, order
vars == <<par, delivered, known, offered, order>>

Imported == SFSeqRange(order)

Entries == {[b |-> b, st |-> s] : b \in 1..NB, s \in (-1)..NB} \ {[b |-> b, st |-> 0] : b \in 1..NB}
RECURSIVE SeqsUpTo(_, _)
SeqsUpTo(S, n) == IF n = 0 THEN {<<>>} ELSE LET R == SeqsUpTo(S, n - 1) IN R \cup {Append(r, x) : r \in R, x \in S}
Responses == SeqsUpTo(Entries, RespLen)

Init == /\ par \in SFAllForests(NB)
        /\ delivered = {} /\ known = {0} /\ offered = {} /\ order = <<>>

Deliver(es) ==
  /\ Cardinality(delivered) < MaxDeliver /\ es \notin delivered
  /\ delivered' = delivered \cup {es}
  /\ offered' = offered \cup Offers(par, <<[es |-> es]>>)
  /\ UNCHANGED <<par, known, order>>

Import(b) ==
  /\ Legal(par, known, offered, Imported, b)
  /\ known' = known \cup {b}
  /\ order' = Append(order, b)
  /\ UNCHANGED <<par, delivered, offered>>

Next == (\E es \in Responses : Deliver(es)) \/ (\E b \in 1..NB : Import(b))
Spec == Init /\ [][Next]_vars

--------------------------------------------------------------------------
ParentsFirst == \A i \in 1..Len(order) : par[order[i]] = 0 \/ \E j \in 1..(i - 1) : order[j] = par[order[i]]
NeverTwice == \A i, j \in 1..Len(order) : i # j => order[i] # order[j]
OnlyFromValid ==
  \A b \in Imported : \E es \in delivered :
     b \in RespBlocks(es) /\ HashesOK(es) /\ Linked(par, es)
KnownIsImported == known = {0} \cup Imported
TypeOK == SFIsForest(par) /\ offered \subseteq 1..NB /\ Imported \subseteq offered

(* witness of non-vacuity: TLC must find a violation of this "invariant" *)
NotAllImported == Imported # 1..NB
=============================================================================
