SPECIFICATION SpecGrid
CONSTANTS
  NatBase = 32768
  GridC = 6
  GridN = 6
  MaxN = 6
  Depth = 1
INVARIANT Dump
CHECK_DEADLOCK FALSE
