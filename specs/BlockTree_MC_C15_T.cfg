SPECIFICATION SpecAll
CONSTANTS
  MaxAdd = 5
  Prims <- NoPrims
  Arrivals <- OneArrival
  HashRank <- GHashRank
  FreeIds = FALSE
  OpKinds <- AllKinds
  PhaseAdds = 0
  ObsKind = "none"
  Depth = 8
INVARIANTS TypeOK LiveExact LeavesChildless QueryLaws BestIsBestLeaf ObsAgree ChainCovers Discarded
PROPERTIES PruneExact HeadMonotone FailedChangesNothing OnlyDescendantsSucceed
VIEW View
CHECK_DEADLOCK FALSE
