----------------------------- MODULE PeerSet_MC -----------------------------
(* concrete constants for model checking PeerSet (cfg files cannot hold    *)
(* negative numbers).  Scaled-down reputation type -3..2 with threshold -2 *)
(* (exhaustive runs), and the real int32 type with the code's constants    *)
(* (random walks).                                                         *)
EXTENDS PeerSet
McMin == -3
McThr == -2
McPen == -1
McDeltas == {-6, -1, 1, 5}
McDeltasQ == {-6, -1, 5}

RealMin == -2147483647 - 1
RealMax == 2147483647
RealThr == -1760936552
RealPen == -256
RealDeltas == {RealMin, RealMax, RealThr, RealThr + 1, -RealThr, -1073741824, 1073741824, -1048576, -256, -1, 1, 16, 0}

Sym == Permutations(Peers)
=============================================================================
