---------------------------- MODULE VoterChoice ----------------------------
(***************************************************************************)
(* C21: case machine around lib/VoterChoiceOps.tla.                        *)
(* A case is [n, t, head, ms, change].  The harness (lib/grandpa) builds   *)
(* the tree in a real BlockState, finalises head, feeds every message      *)
(* through Service.validateVoteMessage (real ed25519 signatures) in        *)
(* several orders, and compares                                            *)
(*   - the per-block totals of both stages (getTotalVotesForBlock) with    *)
(*     VCTotal: this is "never counted" and "counting descendants and      *)
(*     equivocators";                                                      *)
(*   - determinePreCommit with VCPrecommitTarget where VCGhostSpecified;   *)
(*   - the block finalised by attemptToFinalize (if any) with              *)
(*     VCMayFinalise.                                                      *)
(***************************************************************************)
EXTENDS VoterChoiceOps, TLC, Json

CONSTANTS Trees, Ns, MaxMsgs, CasesPerBehaviour,
          MHeads, MChanges   \* model checking: heads / pending-change numbers tried

VARIABLES cs, hist, done
vars == <<cs, hist, done>>

Spv(c) == VCVotes(c.n, c.t, c.head, c.ms, "prevote")
Spc(c) == VCVotes(c.n, c.t, c.head, c.ms, "precommit")

VVerdict(c) ==
  LET pv == Spv(c)  pc == Spc(c)
      spec == VCGhostSpecified(c.n, c.t, pv)
  IN
  [pvTotals |-> [b \in VFBlocks(c.t) |-> VCTotal(c.t, pv, b)],
   pcTotals |-> [b \in VFBlocks(c.t) |-> VCTotal(c.t, pc, b)],
   ghostSpecified |-> spec,
   ghost    |-> IF spec THEN VCGhost(c.n, c.t, pv) ELSE 0,
   target   |-> IF spec THEN VCPrecommitTarget(c.n, c.t, pv, c.change) ELSE 0,
   mayFinalise |-> {f \in VFBlocks(c.t) : VCMayFinalise(c.n, c.t, pv, pc, f)},
   pcSuper  |-> VCSuper(c.n, c.t, pc),
   tolerant |-> VCTolerant(c.n, pv) /\ VCTolerant(c.n, pc)]

Stages == {"prevote", "precommit"}
(* one defect per message is enough: (sig, num) is never ("bad", "wrong") *)
Universe(n, t) == {[id |-> i, stage |-> s, b |-> b, sig |-> g[1], num |-> g[2]] :
                     i \in 1..(n + 1), s \in Stages, b \in 0..Len(t),
                     g \in {<<"ok", "ok">>, <<"bad", "ok">>, <<"ok", "wrong">>}}

Init == /\ \E t \in Trees, n \in Ns : \E h \in MHeads \cap VFBlocks(t), ch \in MChanges :
             cs = [n |-> n, t |-> t, head |-> h, ms |-> {}, change |-> ch]
        /\ hist = <<>> /\ done = FALSE
AddMsg(m) == /\ Cardinality(cs.ms) < MaxMsgs /\ m \notin cs.ms
             /\ cs' = [cs EXCEPT !.ms = @ \cup {m}]
             /\ UNCHANGED <<hist, done>>
NextAll == \E m \in Universe(cs.n, cs.t) : AddMsg(m)

RE(S) == RandomElement({x \in S : Len(hist) >= 0})

RECURSIVE RandMsgs(_, _, _, _, _, _)
RandMsgs(n, t, k, above, clean, stage) ==
  IF k = 0 THEN {}
  ELSE RandMsgs(n, t, k - 1, above, clean, stage) \cup
       {[id |-> IF clean \/ RE(1..5) # 1 THEN RE(1..n) ELSE n + 1,
         stage |-> stage,
         b |-> IF clean \/ RE(1..5) # 1 THEN RE(above) ELSE RE(0..Len(t)),
         sig |-> IF clean \/ RE(1..5) # 1 THEN "ok" ELSE "bad",
         num |-> IF clean \/ RE(1..5) # 1 THEN "ok" ELSE "wrong"]}

RandCase ==
  LET t == RE(Trees)
      n == RE(Ns)
      (* the head is mostly the root or its child so that a tree remains above it *)
      h == IF RE(1..3) = 1 THEN RE(VFBlocks(t)) ELSE 1
      above == {b \in VFBlocks(t) : VFGeq(t, b, h)}
      clean == RE(1..2) = 1
      ch == IF RE(1..3) = 1 THEN RE(1..3) ELSE 0
      kv == RE({x \in 1..MaxMsgs : x <= n + 2})
      kc == RE({x \in 0..MaxMsgs : x <= n + 2})
      (* one case in three: EVERY authority prevotes (and most precommit) a     *)
      (* well-formed vote somewhere above the head -- supermajorities that only *)
      (* exist on blocks nobody voted for directly arise this way               *)
      full == RE(1..3) = 1
      fullMs == {[id |-> i, stage |-> "prevote", b |-> RE(above), sig |-> "ok", num |-> "ok"] : i \in 1..n}
                \cup {[id |-> i, stage |-> "precommit", b |-> RE(above), sig |-> "ok", num |-> "ok"] :
                        i \in {j \in 1..n : RE(1..4) # 1}}
  IN [n |-> n, t |-> t, head |-> h, change |-> ch,
      ms |-> IF full THEN fullMs
             ELSE RandMsgs(n, t, kv, above, clean, "prevote") \cup RandMsgs(n, t, kc, above, clean, "precommit")]

Gen == /\ ~done /\ Len(hist) < CasesPerBehaviour
       /\ hist' = Append(hist, RandCase) /\ UNCHANGED <<cs, done>>
Finish == /\ ~done /\ Len(hist) >= CasesPerBehaviour
          /\ done' = TRUE /\ UNCHANGED <<cs, hist>>
NextRand == Gen \/ Finish
SpecAll == Init /\ [][NextAll]_vars
SpecRand == Init /\ [][NextRand]_vars
Dump == done => PrintT(<<"TRACE", ToJson([i \in 1..Len(hist) |-> [o |-> hist[i], res |-> VVerdict(hist[i])]])>>)
View == cs

--------------------------------------------------------------------------
(* ---- properties of the specification (engine M) ----------------------- *)

(* a message failing any of the five conditions changes no total *)
MalformedNeverCounted ==
  \A m \in cs.ms : ~VCCounted(cs.n, cs.t, cs.head, m) =>
     LET d == [cs EXCEPT !.ms = @ \ {m}]
     IN Spv(cs) = Spv(d) /\ Spc(cs) = Spc(d)

(* tolerated equivocation: the blocks with more than two thirds form a     *)
(* chain, so "the highest" is a definition; the GHOST descends from head   *)
GhostWellDefined ==
  VCGhostSpecified(cs.n, cs.t, Spv(cs)) =>
     /\ VFIsChain(cs.t, VCSuper(cs.n, cs.t, Spv(cs)))
     /\ VFGeq(cs.t, VCGhost(cs.n, cs.t, Spv(cs)), cs.head)

(* the precommit target is the GHOST or its ancestor at the change height  *)
TargetCapped ==
  VCGhostSpecified(cs.n, cs.t, Spv(cs)) =>
     LET g == VCGhost(cs.n, cs.t, Spv(cs))
         p == VCPrecommitTarget(cs.n, cs.t, Spv(cs), cs.change)
     IN /\ VFGeq(cs.t, g, p)
        /\ (cs.change # 0 => VFHeight(cs.t, p) <= IF VFHeight(cs.t, g) < cs.change THEN VFHeight(cs.t, g) ELSE cs.change)
        /\ (cs.change = 0 => p = g)

(* two blocks that may both be finalised (tolerated precommit              *)
(* equivocation) are on one chain: per-round consistency of finalisation   *)
FinalisableChain ==
  VCTolerant(cs.n, Spc(cs)) =>
     VFIsChain(cs.t, {f \in VFBlocks(cs.t) : VCMayFinalise(cs.n, cs.t, Spv(cs), Spc(cs), f)})

(* totals only grow with more messages *)
MonoStep == \A b \in VFBlocks(cs.t) : VCTotal(cs.t, Spv(cs), b) <= VCTotal(cs'.t, Spv(cs'), b)
Monotone == [][MonoStep]_vars
=============================================================================
