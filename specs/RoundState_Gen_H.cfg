SPECIFICATION SpecRand
CONSTANTS
  Trees <- GTreesSmall
  Voters <- V34
  W <- W34
  EqV <- VHeavy
  LeafBias = FALSE
  PVUnanimous = FALSE
  MaxPV = 2
  MaxPC = 2
  Depth = 8
INVARIANT Dump
CHECK_DEADLOCK FALSE
