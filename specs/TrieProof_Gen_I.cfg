SPECIFICATION GPSpec
CONSTANTS
  PKeys <- PiKeys
  PVals <- PiVals
  PProbe <- PiProbe
  PNum = 6
INVARIANT PDump
CHECK_DEADLOCK FALSE
