SPECIFICATION SpecRand
CONSTANTS
  MaxBlocks = 10
  MaxAnn = 5
  Anns <- GAnns
  Depth = 17
  Record = TRUE
INVARIANT Dump
CHECK_DEADLOCK FALSE
