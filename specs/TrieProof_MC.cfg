SPECIFICATION PSpec
CONSTANTS
  PKeys <- PmKeys
  PVals <- PmVals
  PProbe <- PmProbe
  PNum = 0
INVARIANTS Complete Sound
VIEW PView
CHECK_DEADLOCK FALSE
