SPECIFICATION SpecRand
CONSTANTS
  Peers = {p1, p2, p3, p4}
  Limits = {0, 1, 2, 3}
  MinRep <- RealMin
  MaxRep <- RealMax
  Threshold <- RealThr
  Penalty <- RealPen
  TickDiv = 50
  Deltas <- RealDeltas
  MaxList = 3
  MaxReportList = 3
  Ticks = {1, 2, 40}
INVARIANTS TypeOK SlotsIn SlotsOut CountIn CountOut NoBanned RepRange ReservedOnly
PROPERTIES ReportReachesAll NeverAcceptBanned MessagesExplainState TickRefinesRelation
CHECK_DEADLOCK FALSE
