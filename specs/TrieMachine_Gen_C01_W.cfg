SPECIFICATION SpecRand
CONSTANTS
  Keys <- WKeys
  Vals <- WVals
  Prefixes <- WPrefixes
  Limits <- SLimits
  OpKinds <- RootKinds
  FreezeParents = FALSE
  MaxHandles = 1
  Depth = 8
INVARIANT Dump
CHECK_DEADLOCK FALSE
