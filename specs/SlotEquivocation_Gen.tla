------------------------ MODULE SlotEquivocation_Gen ------------------------
EXTENDS SlotEquivocation
(* slots around the retention (1000) and pruning (2000) bounds             *)
GSlots == {5, 6, 1005, 1006, 1007, 2004, 2005, 2006, 3006, 3007, 4100}
MSlots == {5, 1005, 1006, 2005, 3006}
QSlots == {5, 1005, 1006, 2005}
GSigners == {1, 2, 3}
MSigners == {1, 2}
GHids == {1, 2, 3}
MHids == {1, 2}
=============================================================================
