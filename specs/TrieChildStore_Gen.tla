------------------------- MODULE TrieChildStore_Gen -------------------------
(* Generator / model-checking constants for TrieChildStore (C04, child tries). *)
EXTENDS TrieChildStore

CcAllKinds == {"Put", "Delete", "PutChild", "ClearChild", "SetChild", "DeleteChild", "Commit", "Reopen"}
(* only child tries are written: the main trie consists of child-trie        *)
(* pointers alone (one child = a main trie whose ROOT IS A LEAF)             *)
CcChildOnly == {"PutChild", "ClearChild", "SetChild", "DeleteChild", "Commit", "Reopen"}

(* generation alphabet: ordinary keys that share a nibble prefix with the    *)
(* child keys (":", ":chi", ":child_storage:") and unrelated ones; nested    *)
(* child names ("a" is a prefix of "ab": the pointer of "a" sits in a branch *)
(* with value); child values of 0/1/32/33/40 bytes (hashed under V1)         *)
CgKeys == { <<58>>, <<58, 99, 104, 105>>, <<18>>, <<18, 1>>, <<64>>,
            <<58, 99, 104, 105, 108, 100, 95, 115, 116, 111, 114, 97, 103, 101, 58>> }
CgVals == { <<>>, <<1>>, Rep(32, 7), Rep(33, 9), Rep(40, 3) }
CgProbe == { <<58, 99>>, <<19>>, <<18, 1, 0>> }
CgNames == { <<97>>, <<97, 98>>, <<98>>, <<>> }
CgCKeys == { <<>>, <<1>>, <<1, 2>>, <<1, 3>>, <<32>>, <<18, 83>>, <<18, 84>> }
CgCVals == { <<>>, <<1>>, Rep(28, 4), Rep(32, 7), Rep(33, 9), Rep(40, 3) }
CgCProbe == { <<2>>, <<1, 2, 0>>, <<18, 80>> }
CgSetSeq == << [k \in {<<1>>} |-> <<5>>],
               [k \in {<<1>>, <<1, 2>>, <<32>>} |-> IF k = <<32>> THEN Rep(33, 9) ELSE Rep(30, Len(k))],
               [k \in {<<>>, <<18, 83>>, <<18, 84>>} |-> IF k = <<>> THEN Rep(40, 3) ELSE <<2>>] >>

(* tiny constants for exhaustive model checking *)
CmKeys == { <<18>>, <<58, 99>> }
CmVals == { <<1>>, Rep(33, 9) }
CmProbe == { <<58>> }
CmNames == { <<97>>, <<97, 98>> }
CmCKeys == { <<1>>, <<1, 2>> }
CmCVals == { <<7>>, Rep(33, 9) }
CmCProbe == { <<2>> }
CmSetSeq == << [k \in {<<1>>, <<1, 2>>} |-> <<5>>] >>
=============================================================================
