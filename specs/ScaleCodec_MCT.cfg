SPECIFICATION SpecAll
CONSTANTS
  Types <- MTypesT
  CaseKinds <- BothKinds
  Depth = 1
  RandDepth = 1
INVARIANTS TypeOK Laws InitLaws
CHECK_DEADLOCK FALSE
