SPECIFICATION SpecAll
CONSTANTS
  MaxBlocks = 4
  MaxAnn = 2
  Anns <- MAnns
  Depth = 7
  Record = FALSE
INVARIANTS TypeOK SetIdCounts OneForcedPerFork AppliedWhenEffective NoPendingOnAbandoned NoLoss PendingNotOverdue UniqueApplicable SetIdAtMonotone DigestLayerLaw
PROPERTY SetIdStep
VIEW View
CHECK_DEADLOCK FALSE
