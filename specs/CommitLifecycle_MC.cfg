SPECIFICATION SpecAll
CONSTANTS
  MaxBlock = 6
  ChangeAt = 3
  Depth = 7
INVARIANTS TypeOK OnlySupported FreshIsExact CacheNotAhead
VIEW View
CHECK_DEADLOCK FALSE
