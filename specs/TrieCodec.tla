------------------------------ MODULE TrieCodec ------------------------------
(***************************************************************************)
(* The trie NODE GRAMMAR as an abstract data type with an encoder and a    *)
(* TOTAL decoder (C07), independent of TrieSpec!EncNode (which goes from   *)
(* the key/value map straight to bytes).  Used by                          *)
(*   C07  "Every trie node encodes to bytes that decode back to an         *)
(*         equivalent node ... leaves and branches, with or without a      *)
(*         value, inline or hashed values, any partial key length up to    *)
(*         65535 nibbles.  Decoding any byte string yields a node or an    *)
(*         error"   -> EncN, DecN, theorem DecN(EncN(n)) = n, DecN total   *)
(*   C04/C05/C06  walking a set of stored blobs from a root hash           *)
(*         (TrieStore!Lookup, TrieStore!LoadEntries, TrieProof!VerifySpec) *)
(*                                                                         *)
(* An abstract node is a record                                            *)
(*   [kind |-> "empty" | "leaf" | "branch",                                *)
(*    pk   |-> sequence of nibbles,                                        *)
(*    val  |-> [t |-> "none" | "inline" | "hashed", b |-> bytes],          *)
(*    kids |-> [0..15 -> [t |-> "none" | "inline" | "hash", b |-> bytes]]] *)
(* val.b of a hashed value and kid.b of a hash child are one 32-byte ITEM: *)
(* a hash token <<-1, n, ...>> (Bytes!H) or 32 plain bytes.                *)
(***************************************************************************)
EXTENDS TrieSpec

NoVal == [t |-> "none", b |-> <<>>]
InlineVal(b) == [t |-> "inline", b |-> b]
HashedVal(h) == [t |-> "hashed", b |-> h]
NoKid == [t |-> "none", b |-> <<>>]
InlineKid(b) == [t |-> "inline", b |-> b]
HashKid(h) == [t |-> "hash", b |-> h]
NoKids == [c \in 0..15 |-> NoKid]

EmptyNode == [kind |-> "empty", pk |-> <<>>, val |-> NoVal, kids |-> NoKids]
LeafNode(pk, val) == [kind |-> "leaf", pk |-> pk, val |-> val, kids |-> NoKids]
BranchNode(pk, val, kids) == [kind |-> "branch", pk |-> pk, val |-> val, kids |-> kids]

MaxPkLen == 65535

--------------------------------------------------------------------------
(* ---- encoder ----------------------------------------------------------- *)

(* header for a node of the given kind / value type with pkLen nibbles;    *)
(* only the LENGTH of the partial key is needed, so that 65535-nibble keys *)
(* never have to exist as TLC sequences (the Go side builds them)          *)
HeaderFor(kind, valT, pkLen) ==
  IF kind = "leaf"
  THEN (IF valT = "hashed" THEN Header(32, 31, pkLen) ELSE Header(64, 63, pkLen))
  ELSE IF valT = "none" THEN Header(128, 63, pkLen)
  ELSE IF valT = "hashed" THEN Header(16, 15, pkLen)
  ELSE Header(192, 63, pkLen)

(* byte length of a value that may contain hash tokens (a child-trie root  *)
(* stored as a VALUE of the main trie is such a token: 32 bytes); for      *)
(* token-free sequences this is Len                                        *)
ByteLen(b) == IF HasToken(b) THEN BLen(b) ELSE Len(b)

EncValN(v) == CASE v.t = "inline" -> Compact(ByteLen(v.b)) \o v.b
                [] v.t = "hashed" -> v.b
                [] OTHER -> <<>>

EncKidN(k) == CASE k.t = "inline" -> Compact(Len(k.b)) \o k.b
                [] k.t = "hash" -> Compact(32) \o k.b
                [] OTHER -> <<>>

RECURSIVE EncKidsFrom(_, _)
EncKidsFrom(kids, c) == IF c > 15 THEN <<>> ELSE EncKidN(kids[c]) \o EncKidsFrom(kids, c + 1)

EncN(n) ==
  IF n.kind = "empty" THEN <<0>>
  ELSE HeaderFor(n.kind, n.val.t, Len(n.pk)) \o NibblesToKeyLE(n.pk)
       \o (IF n.kind = "branch" THEN Bitmap({c \in 0..15 : n.kids[c].t # "none"}) ELSE <<>>)
       \o EncValN(n.val)
       \o (IF n.kind = "branch" THEN EncKidsFrom(n.kids, 0) ELSE <<>>)

(* well-formed abstract nodes: what EncN is specified on *)
IsItem32(h) == (h # <<>> /\ h[1] = -1 /\ Len(h) = 2 + h[2]) \/ (Len(h) = 32 /\ \A i \in 1..32 : h[i] \in Byte)
IsPlain(b) == \A i \in 1..Len(b) : b[i] \in Byte
(* value bytes: plain bytes and whole hash tokens (each standing for 32 bytes) *)
RECURSIVE IsTokBytes(_)
IsTokBytes(b) == IF b = <<>> THEN TRUE
                 ELSE IF b[1] = -1 THEN Len(b) >= 2 /\ b[2] >= 0 /\ Len(b) >= 2 + b[2] /\ IsTokBytes(Drop(b, 2 + b[2]))
                 ELSE b[1] \in Byte /\ IsTokBytes(Tail(b))
IsValueBytes(b) == IsPlain(b) \/ IsTokBytes(b)
WellFormed(n) ==
  /\ n.kind \in {"empty", "leaf", "branch"}
  /\ n.kind = "empty" => n = EmptyNode
  /\ Len(n.pk) <= MaxPkLen /\ \A i \in 1..Len(n.pk) : n.pk[i] \in 0..15
  /\ n.kind = "leaf" => n.val.t # "none" /\ n.kids = NoKids
  /\ n.val.t = "inline" => IsValueBytes(n.val.b)
  /\ n.val.t = "hashed" => IsItem32(n.val.b)
  /\ \A c \in 0..15 : /\ n.kids[c].t = "inline" => IsPlain(n.kids[c].b) /\ Len(n.kids[c].b) < 32
                      /\ n.kids[c].t = "hash" => IsItem32(n.kids[c].b)

--------------------------------------------------------------------------
(* ---- total decoder ------------------------------------------------------ *)

Fail == [ok |-> FALSE]

(* one 32-byte item from the front of s *)
TakeItem32(s) ==
  IF s # <<>> /\ s[1] = -1
  THEN (IF Len(s) >= 2 /\ Len(s) >= 2 + s[2]
        THEN [ok |-> TRUE, item |-> SubSeq(s, 1, 2 + s[2]), rest |-> Drop(s, 2 + s[2])] ELSE Fail)
  ELSE IF Len(s) >= 32 /\ \A i \in 1..32 : s[i] >= 0
       THEN [ok |-> TRUE, item |-> SubSeq(s, 1, 32), rest |-> Drop(s, 32)]
       ELSE Fail

(* n plain bytes from the front of s *)
TakePlain(s, n) ==
  IF Len(s) >= n /\ \A i \in 1..n : s[i] >= 0
  THEN [ok |-> TRUE, item |-> SubSeq(s, 1, n), rest |-> Drop(s, n)] ELSE Fail

(* n BYTES of value data from the front of s, where a hash token counts   *)
(* for the 32 bytes it stands for and is never split (C04 child tries: the *)
(* value of a `:child_storage:default:` entry is the child root, a token). *)
(* Identical to TakePlain when the first n elements hold no token.         *)
RECURSIVE TokLen(_, _)
TokLen(s, n) ==   \* number of elements of s that make up exactly n bytes, or -1
  IF n = 0 THEN 0
  ELSE IF s = <<>> THEN -1
  ELSE IF s[1] = -1
  THEN (IF n < 32 \/ Len(s) < 2 \/ Len(s) < 2 + s[2] THEN -1
        ELSE LET r == TokLen(Drop(s, 2 + s[2]), n - 32) IN IF r < 0 THEN -1 ELSE 2 + s[2] + r)
  ELSE LET r == TokLen(Tail(s), n - 1) IN IF r < 0 THEN -1 ELSE 1 + r

TakeBytes(s, n) ==
  IF Len(s) >= n /\ \A i \in 1..n : s[i] >= 0 THEN TakePlain(s, n)
  ELSE LET e == TokLen(s, n)
       IN IF e < 0 THEN Fail ELSE [ok |-> TRUE, item |-> SubSeq(s, 1, e), rest |-> Drop(s, e)]

(* SCALE compact length, modes 0..2 (lengths below 2^30); big-integer mode *)
(* is a failure of the SPEC decoder (no node encoding produced by EncN     *)
(* uses it)                                                                *)
TakeCompact(s) ==
  IF s = <<>> \/ s[1] < 0 THEN Fail
  ELSE LET mode == s[1] % 4 IN
    IF mode = 0 THEN [ok |-> TRUE, n |-> s[1] \div 4, rest |-> Tail(s)]
    ELSE IF mode = 1
    THEN (IF Len(s) >= 2 /\ s[2] >= 0
          THEN [ok |-> TRUE, n |-> (s[1] \div 4) + 64 * s[2], rest |-> Drop(s, 2)] ELSE Fail)
    ELSE IF mode = 2
    THEN (IF Len(s) >= 4 /\ s[2] >= 0 /\ s[3] >= 0 /\ s[4] >= 0
          THEN [ok |-> TRUE, n |-> (s[1] \div 4) + 64 * s[2] + 16384 * s[3] + 4194304 * s[4], rest |-> Drop(s, 4)]
          ELSE Fail)
    ELSE Fail

(* header: [ok, kind, valT, pkLen, rest] *)
RECURSIVE TakeCont(_, _)
TakeCont(s, acc) ==   \* 255-continuation of the partial key length
  IF s = <<>> \/ s[1] < 0 THEN Fail
  ELSE IF acc + s[1] > MaxPkLen THEN Fail
  ELSE IF s[1] < 255 THEN [ok |-> TRUE, n |-> acc + s[1], rest |-> Tail(s)]
  ELSE TakeCont(Tail(s), acc + 255)

TakeHeader(s) ==
  IF s = <<>> \/ s[1] < 0 THEN Fail
  ELSE LET b == s[1]
           cls == IF b = 0 THEN [kind |-> "empty", valT |-> "none", bits |-> 0, mx |-> 0]
                  ELSE IF b < 16 THEN [kind |-> "bad", valT |-> "none", bits |-> 0, mx |-> 0]
                  ELSE IF b < 32 THEN [kind |-> "branch", valT |-> "hashed", bits |-> 16, mx |-> 15]
                  ELSE IF b < 64 THEN [kind |-> "leaf", valT |-> "hashed", bits |-> 32, mx |-> 31]
                  ELSE IF b < 128 THEN [kind |-> "leaf", valT |-> "inline", bits |-> 64, mx |-> 63]
                  ELSE IF b < 192 THEN [kind |-> "branch", valT |-> "none", bits |-> 128, mx |-> 63]
                  ELSE [kind |-> "branch", valT |-> "inline", bits |-> 192, mx |-> 63]
       IN IF cls.kind = "bad" THEN Fail
          ELSE IF cls.kind = "empty" THEN [ok |-> TRUE, kind |-> "empty", valT |-> "none", pkLen |-> 0, rest |-> Tail(s)]
          ELSE IF b - cls.bits < cls.mx
          THEN [ok |-> TRUE, kind |-> cls.kind, valT |-> cls.valT, pkLen |-> b - cls.bits, rest |-> Tail(s)]
          ELSE LET c == TakeCont(Tail(s), cls.mx)
               IN IF ~c.ok THEN Fail
                  ELSE [ok |-> TRUE, kind |-> cls.kind, valT |-> cls.valT, pkLen |-> c.n, rest |-> c.rest]

(* nibbles of a packed partial key of pkLen nibbles (an odd length drops   *)
(* the high nibble of the first byte)                                      *)
UnpackPk(bytes, pkLen) ==
  LET nb == KeyToNibbles(bytes) IN IF pkLen % 2 = 1 THEN Tail(nb) ELSE nb

TakeValue(s, valT) ==
  IF valT = "none" THEN [ok |-> TRUE, val |-> NoVal, rest |-> s]
  ELSE IF valT = "hashed"
  THEN LET h == TakeItem32(s) IN IF h.ok THEN [ok |-> TRUE, val |-> HashedVal(h.item), rest |-> h.rest] ELSE Fail
  ELSE LET c == TakeCompact(s) IN
       IF ~c.ok THEN Fail
       ELSE LET p == TakeBytes(c.rest, c.n)
            IN IF p.ok THEN [ok |-> TRUE, val |-> InlineVal(p.item), rest |-> p.rest] ELSE Fail

TakeKid(s) ==
  LET c == TakeCompact(s) IN
  IF ~c.ok THEN Fail
  ELSE IF c.n = 32
  THEN LET h == TakeItem32(c.rest) IN IF h.ok THEN [ok |-> TRUE, kid |-> HashKid(h.item), rest |-> h.rest] ELSE Fail
  ELSE IF c.n < 32
  THEN LET p == TakePlain(c.rest, c.n) IN IF p.ok THEN [ok |-> TRUE, kid |-> InlineKid(p.item), rest |-> p.rest] ELSE Fail
  ELSE Fail

BitSet(bm, c) == IF c < 8 THEN (bm[1] \div (2 ^ c)) % 2 = 1 ELSE (bm[2] \div (2 ^ (c - 8))) % 2 = 1

(* children c..15 from s given the bitmap: [ok, kids (function on c..15), rest] *)
RECURSIVE TakeKids(_, _, _)
TakeKids(s, bm, c) ==
  IF c > 15 THEN [ok |-> TRUE, kids |-> [x \in {} |-> NoKid], rest |-> s]
  ELSE IF ~BitSet(bm, c)
  THEN LET r == TakeKids(s, bm, c + 1)
       IN IF ~r.ok THEN Fail
          ELSE [ok |-> TRUE, kids |-> [x \in c..15 |-> IF x = c THEN NoKid ELSE r.kids[x]], rest |-> r.rest]
  ELSE LET k == TakeKid(s) IN
       IF ~k.ok THEN Fail
       ELSE LET r == TakeKids(k.rest, bm, c + 1)
            IN IF ~r.ok THEN Fail
               ELSE [ok |-> TRUE, kids |-> [x \in c..15 |-> IF x = c THEN k.kid ELSE r.kids[x]], rest |-> r.rest]

(* DecN(s): [ok |-> TRUE, node, rest] or [ok |-> FALSE]; total on every     *)
(* finite sequence of integers >= -1                                        *)
DecN(s) ==
  LET h == TakeHeader(s) IN
  IF ~h.ok THEN Fail
  ELSE IF h.kind = "empty" THEN [ok |-> TRUE, node |-> EmptyNode, rest |-> h.rest]
  ELSE LET nb == (h.pkLen + 1) \div 2
           p == TakePlain(h.rest, nb)
       IN IF ~p.ok THEN Fail
          ELSE LET pk == UnpackPk(p.item, h.pkLen) IN
            IF h.kind = "leaf"
            THEN LET v == TakeValue(p.rest, h.valT)
                 IN IF ~v.ok THEN Fail ELSE [ok |-> TRUE, node |-> LeafNode(pk, v.val), rest |-> v.rest]
            ELSE LET bm == TakePlain(p.rest, 2) IN
                 IF ~bm.ok THEN Fail
                 ELSE LET v == TakeValue(bm.rest, h.valT) IN
                      IF ~v.ok THEN Fail
                      ELSE LET ks == TakeKids(v.rest, bm.item, 0)
                           IN IF ~ks.ok THEN Fail
                              ELSE [ok |-> TRUE, node |-> BranchNode(pk, v.val, ks.kids), rest |-> ks.rest]

(* s is exactly the encoding of some node (then the real decoders must     *)
(* return that node); for every other s the property only says             *)
(* "a node or an error, no panic, no hang"                                 *)
IsEncoding(s) == LET d == DecN(s) IN d.ok /\ d.rest = <<>> /\ EncN(d.node) = s

(* ... and so are, recursively, its inlined children, which must be leaves  *)
(* or branches (a child is never the empty node): only then is s the        *)
(* encoding of a TRIE node.  The in-memory decoder decodes inlined children *)
(* eagerly, so it may reject (with an error) what is not deeply valid.      *)
RECURSIVE DeepEncoding(_)
DeepEncoding(s) ==
  /\ IsEncoding(s)
  /\ LET n == DecN(s).node
     IN \A c \in 0..15 : n.kids[c].t = "inline" =>
          /\ DeepEncoding(n.kids[c].b)
          /\ DecN(n.kids[c].b).node.kind # "empty"

(* C07 theorem, instantiated by the model-checking modules *)
RoundTrip(n) == LET d == DecN(EncN(n)) IN d.ok /\ d.rest = <<>> /\ d.node = n

(* the abstract node as JSON-friendly record (kids as a 16-sequence) *)
NodeJson(n) == [kind |-> n.kind, pk |-> n.pk, val |-> n.val, kids |-> [i \in 1..16 |-> n.kids[i - 1]]]

--------------------------------------------------------------------------
(* ---- a content-addressed store of node encodings and hashed values ------ *)
(* (used by TrieStore: C04/C06 and TrieProof: C05)                          *)
(* what a commit must make readable                                        *)

Rows(mm, ver) == StoredNodes(mm, ver) \cup {mm[k] : k \in {x \in DOMAIN mm : ValueHashed(mm[x], ver)}}

--------------------------------------------------------------------------
(* ---- reading by walking the blobs -------------------------------------- *)

Has(d, h) == \E x \in d : H(x) = h
Fetch(d, h) == CHOOSE x \in d : H(x) = h

Found(v) == [st |-> "found", v |-> v]
Absent == [st |-> "absent", v |-> <<>>]
Broken == [st |-> "broken", v |-> <<>>]

ValueOf(d, val) ==
  CASE val.t = "inline" -> Found(val.b)
    [] val.t = "hashed" -> (IF Has(d, val.b) THEN Found(Fetch(d, val.b)) ELSE Broken)
    [] OTHER -> Absent

(* single-key read starting at the node encoding enc with remaining nibbles nk *)
RECURSIVE LookupAt(_, _, _)
LookupAt(d, enc, nk) ==
  LET dec == DecN(enc) IN
  IF ~dec.ok THEN Broken
  ELSE LET n == dec.node IN
    IF n.kind = "empty" THEN Absent
    ELSE IF n.kind = "leaf" THEN (IF n.pk = nk THEN ValueOf(d, n.val) ELSE Absent)
    ELSE IF n.pk = nk THEN ValueOf(d, n.val)
    ELSE IF IsPrefixOf(n.pk, nk) /\ Len(nk) > Len(n.pk)
    THEN LET kid == n.kids[nk[Len(n.pk) + 1]]
             rest == Drop(nk, Len(n.pk) + 1)
         IN CASE kid.t = "inline" -> LookupAt(d, kid.b, rest)
              [] kid.t = "hash" -> (IF Has(d, kid.b) THEN LookupAt(d, Fetch(d, kid.b), rest) ELSE Broken)
              [] OTHER -> Absent
    ELSE Absent

Lookup(d, r, k) == IF Has(d, r) THEN LookupAt(d, Fetch(d, r), KeyToNibbles(k)) ELSE Broken

(* whole-state read: the set of <<nibble key, value>> reachable from enc *)
BrokenL == [ok |-> FALSE, kv |-> {}]
RECURSIVE LoadAt(_, _, _)
LoadAt(d, enc, prefix) ==
  LET dec == DecN(enc) IN
  IF ~dec.ok THEN BrokenL
  ELSE LET n == dec.node IN
    IF n.kind = "empty" THEN [ok |-> TRUE, kv |-> {}]
    ELSE LET here == prefix \o n.pk
             v == ValueOf(d, n.val)
             own == IF v.st = "found" THEN {<<here, v.v>>} ELSE {}
             Kid(c) == CASE n.kids[c].t = "inline" -> LoadAt(d, n.kids[c].b, here \o <<c>>)
                         [] n.kids[c].t = "hash" ->
                              (IF Has(d, n.kids[c].b) THEN LoadAt(d, Fetch(d, n.kids[c].b), here \o <<c>>) ELSE BrokenL)
                         [] OTHER -> [ok |-> TRUE, kv |-> {}]
         IN IF v.st = "broken" \/ \E c \in 0..15 : ~Kid(c).ok THEN BrokenL
            ELSE [ok |-> TRUE, kv |-> own \cup UNION {Kid(c).kv : c \in 0..15}]

LoadEntries(d, r) == IF Has(d, r) THEN LoadAt(d, Fetch(d, r), <<>>) ELSE BrokenL

MapKV(mm) == {<<KeyToNibbles(k), mm[k]>> : k \in DOMAIN mm}

=============================================================================
