------------------------------ MODULE TxState ------------------------------
(***************************************************************************)
(* C34 one level up: dot/state.TransactionState = the ready queue          *)
(* (TxQueueOps) plus the pool of future transactions, behind one API       *)
(* (dot/state/transaction.go).  "each transaction is yielded or removed at *)
(* most once, and duplicates are refused" has to hold for the pair:        *)
(* RemoveExtrinsic removes a transaction from BOTH (a transaction can sit  *)
(* in both after a re-org: Push, then AddToPool by maintainTransactionPool),*)
(* Exists answers for either, and what was removed is never yielded.       *)
(*   s.q     the ready queue (TxQueueOps)                                  *)
(*   s.pool  set of transaction ids in the pool                            *)
(* Results: Push 1/0; Pop/Peek tx or 0; Exists 1/0; others 0.              *)
(***************************************************************************)
EXTENDS TxQueueOps, TLC, Json

CONSTANTS Txs, Prios, Depth
VARIABLES st, hist, done, gone   \* gone: transactions removed by RemoveExtrinsic and not pushed again since
vars == <<st, hist, done, gone>>

Ops == {[op |-> "Push", tx |-> t, prio |-> p] : t \in Txs, p \in Prios}
       \cup {[op |-> "AddToPool", tx |-> t, prio |-> p] : t \in Txs, p \in Prios}
       \cup {[op |-> k, tx |-> 0, prio |-> 0] : k \in {"Pop", "Peek"}}
       \cup {[op |-> k, tx |-> t, prio |-> 0] : k \in {"RemoveExtrinsic", "RemoveExtrinsicFromPool", "Exists"}, t \in Txs}

QOp(o) == [op |-> IF o.op = "RemoveExtrinsic" THEN "Remove" ELSE o.op, tx |-> o.tx, prio |-> o.prio]
Res(s, o) ==
  CASE o.op \in {"Push", "Pop", "Peek"} -> QRes(s.q, o)
    [] o.op = "Exists" -> IF Has(s.q, o.tx) \/ o.tx \in s.pool THEN 1 ELSE 0
    [] OTHER -> 0
Apply(s, o) ==
  CASE o.op \in {"Push", "Pop"} -> [s EXCEPT !.q = QApply(s.q, o)]
    [] o.op = "AddToPool" -> [s EXCEPT !.pool = s.pool \cup {o.tx}]
    [] o.op = "RemoveExtrinsic" -> [q |-> QApply(s.q, QOp(o)), pool |-> s.pool \ {o.tx}]
    [] o.op = "RemoveExtrinsicFromPool" -> [s EXCEPT !.pool = s.pool \ {o.tx}]
    [] OTHER -> s
SortedPool(s) == LET RECURSIVE L(_)
                     L(P) == IF P = {} THEN <<>> ELSE LET m == CHOOSE x \in P : \A y \in P : x <= y IN <<m>> \o L(P \ {m})
                 IN L(s.pool)
Obs(s) == [ready |-> Drain(s.q), pool |-> SortedPool(s)]

Step(o) ==
  /\ ~done /\ Len(hist) < Depth
  /\ st' = Apply(st, o)
  /\ hist' = Append(hist, [o |-> o, res |-> Res(st, o), obs |-> Obs(st')])
  /\ gone' = IF o.op = "RemoveExtrinsic" THEN gone \cup {o.tx}
             ELSE IF o.op \in {"Push", "AddToPool"} THEN gone \ {o.tx} ELSE gone
  /\ UNCHANGED done
Finish == ~done /\ Len(hist) = Depth /\ done' = TRUE /\ UNCHANGED <<st, hist, gone>>
Init == st = [q |-> EmptyQ, pool |-> {}] /\ hist = <<>> /\ done = FALSE /\ gone = {}

Weighted == <<"Push", "Push", "AddToPool", "AddToPool", "Pop", "Peek", "RemoveExtrinsic", "RemoveExtrinsic", "RemoveExtrinsicFromPool", "Exists", "Exists">>
PickOp == LET k == Weighted[RandomElement({i \in 1..Len(Weighted) : Len(hist) >= 0})]
              cand == {o \in Ops : o.op = k}
              \* prefer transactions that are present somewhere: removals and look-ups of present ones are the interesting ones
              here == {o \in cand : o.tx = 0 \/ Has(st.q, o.tx) \/ o.tx \in st.pool}
          IN IF k \in {"RemoveExtrinsic", "RemoveExtrinsicFromPool", "Exists"} /\ here # {} /\ RandomElement({i \in 1..4 : Len(hist) >= 0}) > 1
             THEN RandomElement(here) ELSE RandomElement(cand)
NextAll == (\E o \in Ops : Step(o)) \/ Finish
NextRand == (\E o \in {PickOp} : Step(o)) \/ Finish
SpecAll == Init /\ [][NextAll]_vars
SpecRand == Init /\ [][NextRand]_vars
Dump == done => PrintT(<<"TRACE", ToJson(hist)>>)
View == <<st, gone>>

(* ---- properties ---- *)
(* what RemoveExtrinsic removed is in neither part, is not reported and is not yielded, until it is submitted again *)
RemovedIsGone == \A t \in gone : ~Has(st.q, t) /\ t \notin st.pool
RemovedNotYielded == [][\A o \in Ops : (hist' # hist /\ hist'[Len(hist')].o = o /\ o.op \in {"Pop", "Peek"}) =>
                           hist'[Len(hist')].res \notin gone]_vars
ExistsIsEither == \A t \in Txs : (Res(st, [op |-> "Exists", tx |-> t, prio |-> 0]) = 1) <=> (Has(st.q, t) \/ t \in st.pool)
NoDuplicates == \A a, b \in st.q.q : a.tx = b.tx => a = b
=============================================================================
