SPECIFICATION SpecAll
CONSTANTS
  Types <- DTypesT
  CaseKinds <- OnlyDec
  Depth = 1
  RandDepth = 1
INVARIANT Dump
CHECK_DEADLOCK FALSE
