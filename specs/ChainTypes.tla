----------------------------- MODULE ChainTypes -----------------------------
(***************************************************************************)
(* C14 "Chain data structures encode as the specification defines" and the *)
(* SCALE part of C33 "Network message decoders withstand arbitrary peer    *)
(* input".  The wire layouts are TYPES of specs/lib/Scale.tla -- an        *)
(* encoder independent of pkg/scale and of the Go type definitions:        *)
(*   CtHeader      parent hash, Compact(number), state root, extrinsics    *)
(*                 root, Vec<DigestItem>                                   *)
(*   CtDigestItem  enum: 0 Other(bytes), 4 Consensus(engine, bytes),       *)
(*                 5 Seal(engine, bytes), 6 PreRuntime(engine, bytes),     *)
(*                 8 RuntimeEnvironmentUpdated                             *)
(*     C14: "Block headers with any spec-defined digest items ..."         *)
(*   CtBabePre     enum: 1 primary (authority u32, slot u64, VRF output    *)
(*                 [32], VRF proof [64]), 2 secondary plain, 3 secondary   *)
(*                 VRF         -- "BABE pre-digests"                       *)
(*   CtVote / CtSignedVote   (hash, u32 number) / (vote, sig[64], id[32])  *)
(*                             -- "GRANDPA votes"                          *)
(*   CtBody        Vec<Vec<u8>>  -- "block bodies"                         *)
(*   CtAnnounce    header fields + bool best block;  CtHandshake (role u8, *)
(*                 best number u32, best hash, genesis hash);  CtTxMsg     *)
(*                 Vec<Vec<u8>>   -- C33 "block announcements, handshakes, *)
(*                 transactions"                                           *)
(* "A header's hash is BLAKE2b-256 of its encoding": CtHeaderHash is the   *)
(* token H(ScEnc(CtHeader, v)), resolved by the harness with real BLAKE2b. *)
(*                                                                         *)
(* Cases:  [o |-> [op |-> "enc", ty |-> name, v |-> value],                *)
(*          res |-> [enc |-> bytes, hash |-> token or <<>>]]        (C14)  *)
(*         [o |-> [op |-> "dec", ty |-> name, b |-> bytes, mut |-> ..],    *)
(*          res |-> ScDec(type, b)]                                 (C33)  *)
(* Engine M checks RoundTrip / PrefixFree / DecSound (ScaleCodec) on every *)
(* case, and that distinct headers get distinct hash tokens.               *)
(***************************************************************************)
EXTENDS ScaleCodec

CONSTANTS TyNames      \* which of the named types this configuration enumerates

CtHash == ScU(32)          \* n raw bytes: the same encoding as [n]u8
CtEngine == ScU(4)
CtPayload == ScTuple(<<CtEngine, ScBytes>>)
CtDigestItem == ScEnum("DigestItem", << [i |-> 0, t |-> ScBytes], [i |-> 4, t |-> CtPayload], [i |-> 5, t |-> CtPayload],
                                        [i |-> 6, t |-> CtPayload], [i |-> 8, t |-> ScTuple(<<>>)] >>)
CtDigest == ScSlice(CtDigestItem)
CtHeader == ScTuple(<<CtHash, ScCompact, CtHash, CtHash, CtDigest>>)
CtAnnounce == ScTuple(<<CtHash, ScCompact, CtHash, CtHash, CtDigest, ScBool>>)
CtHandshake == ScTuple(<<ScU(1), ScU(4), CtHash, CtHash>>)
CtBody == ScSlice(ScBytes)
CtTxMsg == ScTuple(<<CtBody>>)
CtVrf == ScTuple(<<ScU(4), ScU(8), ScU(32), ScU(64)>>)
CtBabePre == ScEnum("BabePre", << [i |-> 1, t |-> CtVrf], [i |-> 2, t |-> ScTuple(<<ScU(4), ScU(8)>>)], [i |-> 3, t |-> CtVrf] >>)
CtVote == ScTuple(<<CtHash, ScU(4)>>)
CtSignedVote == ScTuple(<<CtVote, ScU(64), ScU(32)>>)

CtType(name) == CASE name = "header" -> CtHeader [] name = "announce" -> CtAnnounce [] name = "handshake" -> CtHandshake
                  [] name = "body" -> CtBody [] name = "txmsg" -> CtTxMsg [] name = "babepre" -> CtBabePre
                  [] name = "vote" -> CtVote [] name = "signedvote" -> CtSignedVote [] name = "digestitem" -> CtDigestItem

(* ---- small field domains: "two hashes, numbers at compact boundaries, 0-3 digest items of every kind" *)
HA == Rep(32, 0)
HB == [i \in 1..32 |-> i]
HC == Rep(32, 255)
BABE == <<66, 65, 66, 69>>
FRNK == <<70, 82, 78, 75>>
Numbers == << <<>>, <<1>>, <<63>>, <<64>>, BnPred(BnPow2(14)), BnPow2(14), BnPred(BnPow2(30)), BnPow2(30),
              BnPred(BnPow2(32)), BnPow2(32), BnPow2(40), BnPred(BnPow2(64)) >>
Items == << [i |-> 6, v |-> <<BABE, <<2, 1, 0, 0, 0, 9, 0, 0, 0, 0, 0, 0, 0>>>>], [i |-> 4, v |-> <<BABE, <<1>>>>],
            [i |-> 5, v |-> <<BABE, Rep(64, 7)>>], [i |-> 8, v |-> <<>>], [i |-> 4, v |-> <<FRNK, <<>>>>],
            [i |-> 0, v |-> <<1, 2, 3>>], [i |-> 0, v |-> <<>>] >>
Digests == << <<>>, <<Items[1]>>, <<Items[2]>>, <<Items[3]>>, <<Items[4]>>, <<Items[5]>>, <<Items[1], Items[2], Items[3]>>,
              <<Items[4], Items[1]>>, <<Items[1], Items[5], Items[4]>>, <<Items[6]>>, <<Items[1], Items[7], Items[3]>> >>
HeaderVals == [j \in 1..(Len(Numbers) + Len(Digests)) |->
                 IF j <= Len(Numbers) THEN <<ScAt(<<HA, HB, HC>>, j), Numbers[j], HB, ScAt(<<HC, HA>>, j), ScAt(Digests, j)>>
                 ELSE <<HB, ScAt(Numbers, j + 3), HC, HA, Digests[j - Len(Numbers)]>>]
VrfVals == << <<Rep(4, 0), Rep(8, 0), Rep(32, 0), Rep(64, 0)>>, <<<<1, 2, 3, 4>>, <<1, 2, 3, 4, 5, 6, 7, 8>>, HB, Rep(64, 9)>>,
              <<Rep(4, 255), Rep(8, 255), HC, Rep(64, 255)>> >>
CtVals(name) ==
  CASE name = "header" -> HeaderVals
    [] name = "announce" -> [j \in 1..Len(HeaderVals) |-> HeaderVals[j] \o <<j % 2 = 0>>]
    [] name = "handshake" -> << <<<<1>>, Rep(4, 0), HA, HB>>, <<<<4>>, <<1, 2, 3, 4>>, HB, HC>>, <<<<2>>, Rep(4, 255), HC, HA>>, <<<<9>>, <<0, 1, 0, 0>>, HB, HB>> >>
    [] name = "body" -> << <<>>, << <<>> >>, << <<1, 2, 3>> >>, << <<4>>, <<>>, Rep(64, 5) >> >>
    [] name = "txmsg" -> << << <<>> >>, << << <<1, 2, 3>> >> >>, << << <<4>>, <<5, 6>>, Rep(63, 5) >> >> >>
    [] name = "babepre" -> [j \in 1..3 |-> [i |-> 1, v |-> VrfVals[j]]] \o [j \in 1..3 |-> [i |-> 3, v |-> VrfVals[j]]]
                           \o [j \in 1..3 |-> [i |-> 2, v |-> <<VrfVals[j][1], VrfVals[j][2]>>]]
    [] name = "vote" -> << <<HA, Rep(4, 0)>>, <<HB, <<1, 2, 3, 4>>>>, <<HC, Rep(4, 255)>> >>
    [] name = "signedvote" -> << <<<<HA, Rep(4, 0)>>, Rep(64, 0), HA>>, <<<<HB, <<1, 2, 3, 4>>>>, Rep(64, 9), HC>> >>
    [] name = "digestitem" -> Items

CtHeaderHash(v) == H(ScEnc(CtHeader, v))

CtEncCase(name, i) == [op |-> "enc", ty |-> name, v |-> CtVals(name)[i]]
CtDecCases(name, i) == {[op |-> "dec", ty |-> name, b |-> m.b, mut |-> m.mut] : m \in Mutations(CtType(name), CtVals(name)[i])}
CtResult(o) == IF o.op = "enc"
               THEN [enc |-> ScEnc(CtType(o.ty), o.v), hash |-> IF o.ty = "header" THEN CtHeaderHash(o.v) ELSE <<>>]
               ELSE ScDec(CtType(o.ty), o.b)
CtStep(o) == /\ hist' = Append(hist, [o |-> o, res |-> CtResult(o)])
             /\ UNCHANGED <<done, part>>
CtInit == hist = <<>> /\ done = FALSE /\ part \in TyNames
CtNext == \/ /\ ~done /\ Len(hist) < Depth
             /\ \E i \in 1..Len(CtVals(part)) :
                   \/ "rt" \in CaseKinds /\ CtStep(CtEncCase(part, i))
                   \/ "dec" \in CaseKinds /\ \E o \in CtDecCases(part, i) : CtStep(o)
          \/ Finish
CtSpec == CtInit /\ [][CtNext]_vars

(* ---- laws -------------------------------------------------------------------*)
CtCaseLaw(o) == LET t == CtType(o.ty) IN
  IF o.op = "enc" THEN RoundTrip(t, o.v) /\ PrefixFree(t, o.v) /\ SuffixIndependent(t, o.v)
  ELSE DecSound(t, o.b)
CtLaws == \A i \in 1..Len(hist) : CtCaseLaw(hist[i].o)
(* distinct headers have distinct hashes (token injectivity = collision freeness) *)
CtHashSeparates == (hist = <<>> /\ part = "header") =>
  \A i, j \in 1..Len(HeaderVals) : HeaderVals[i] # HeaderVals[j] => CtHeaderHash(HeaderVals[i]) # CtHeaderHash(HeaderVals[j])
(* the announce layout is the header layout followed by one bool *)
CtAnnounceIsHeaderPlusBool == (hist = <<>> /\ part = "announce") =>
  \A j \in 1..Len(HeaderVals) : ScEnc(CtAnnounce, HeaderVals[j] \o <<TRUE>>) = ScEnc(CtHeader, HeaderVals[j]) \o <<1>>
=============================================================================
