----------------------------- MODULE ChainTypes -----------------------------
(***************************************************************************)
(* C14 "Chain data structures encode as the specification defines" and the *)
(* SCALE part of C33 "Network message decoders withstand arbitrary peer    *)
(* input".  The wire layouts are TYPES of specs/lib/Scale.tla -- an        *)
(* encoder independent of pkg/scale and of the Go type definitions:        *)
(*   CtHeader      parent hash, Compact(number), state root, extrinsics    *)
(*                 root, Vec<DigestItem>                                   *)
(*   CtDigestItem  enum: 0 Other(bytes), 4 Consensus(engine, bytes),       *)
(*                 5 Seal(engine, bytes), 6 PreRuntime(engine, bytes),     *)
(*                 8 RuntimeEnvironmentUpdated                             *)
(*     C14: "Block headers with any spec-defined digest items ..."         *)
(*   CtBabePre     enum: 1 primary (authority u32, slot u64, VRF output    *)
(*                 [32], VRF proof [64]), 2 secondary plain, 3 secondary   *)
(*                 VRF         -- "BABE pre-digests"                       *)
(*   CtVote / CtSignedVote   (hash, u32 number) / (vote, sig[64], id[32])  *)
(*                             -- "GRANDPA votes"                          *)
(*   CtBody        Vec<Vec<u8>>  -- "block bodies"                         *)
(*   CtAnnounce    header fields + bool best block;  CtHandshake (role u8, *)
(*                 best number u32, best hash, genesis hash);  CtTxMsg     *)
(*                 Vec<Vec<u8>>   -- C33 "block announcements, handshakes, *)
(*                 transactions"                                           *)
(* "A header's hash is BLAKE2b-256 of its encoding": CtHeaderHash is the   *)
(* token H(ScEnc(CtHeader, v)), resolved by the harness with real BLAKE2b. *)
(*                                                                         *)
(* Cases:  [o |-> [op |-> "enc", ty |-> name, v |-> value],                *)
(*          res |-> [enc |-> bytes, hash |-> token or <<>>]]        (C14)  *)
(*         [o |-> [op |-> "dec", ty |-> name, b |-> bytes, mut |-> ..],    *)
(*          res |-> ScDec(type, b)]                                 (C33)  *)
(* Engine M checks RoundTrip / PrefixFree / DecSound (ScaleCodec) on every *)
(* case, and that distinct headers get distinct hash tokens.               *)
(*                                                                         *)
(* Extension (wire layouts of the GRANDPA gossip, consensus digests,       *)
(* justifications, and the protobuf block request / response):             *)
(*   CtGrandpaMsg  lib/grandpa gossip enum: 0 vote (round u64, set id u64, *)
(*                 signed message = stage u8, hash, u32, sig[64], id[32]), *)
(*                 1 commit (round, set id, vote, Vec<vote>, Vec<(sig,     *)
(*                 id)>), 2 neighbour (version enum: 1 = round, set id,    *)
(*                 u32), 3 catch-up request (round, set id), 4 catch-up    *)
(*                 response (set id, round, Vec<signed vote> x2, hash,     *)
(*                 u32)  -- C14 "GRANDPA votes, commits", C33 "GRANDPA     *)
(*                 messages".  The stage is a plain byte here: which       *)
(*                 stages a DECODER must refuse is not pinned by C33.      *)
(*   CtCommit / CtJustification   (hash, u32, Vec<signed vote>) / (round   *)
(*                 u64, commit); CtPrimJust(w) adds Vec<Header> and has    *)
(*                 block numbers of w bytes (generic in the code)          *)
(*                 -- C14 "commits and justifications"                     *)
(*   CtBabeCons    1 next epoch (Vec<(key[32], u64)>, randomness[32]),     *)
(*                 2 on-disabled u32, 3 next config (version enum: 1 =     *)
(*                 c1 u64, c2 u64, allowed-slots enum 0/1/2)               *)
(*   CtGrandpaCons 1 scheduled (Vec<(key, u64)>, delay u32), 2 forced (u32,*)
(*                 auths, delay), 3 on-disabled u64, 4 pause u32, 5 resume *)
(*                 u32    -- C14 "consensus digests"                       *)
(*   CtBlockRequestEnc / CtBlockResponseEnc   explicit protobuf layouts on *)
(*                 specs/lib/PbWire.tla -- C14 "block request/response     *)
(*                 messages ... match an independent reference encoder     *)
(*                 byte for byte"                                          *)
(* Wire messages get EVERY truncation and structure-aware perturbations    *)
(* (each discriminant, each length prefix: +-1, widened, huge) with the    *)
(* verdict of ScDec / CtPbDec  -- C33 "mutated valid encodings, and        *)
(* crafted length prefixes".                                               *)
(***************************************************************************)
EXTENDS ScaleCodec, PbWire

CONSTANTS TyNames      \* which of the named types this configuration enumerates

CtHash == ScU(32)          \* n raw bytes: the same encoding as [n]u8
CtEngine == ScU(4)
CtPayload == ScTuple(<<CtEngine, ScBytes>>)
CtDigestItem == ScEnum("DigestItem", << [i |-> 0, t |-> ScBytes], [i |-> 4, t |-> CtPayload], [i |-> 5, t |-> CtPayload],
                                        [i |-> 6, t |-> CtPayload], [i |-> 8, t |-> ScTuple(<<>>)] >>)
CtDigest == ScSlice(CtDigestItem)
CtHeader == ScTuple(<<CtHash, ScCompact, CtHash, CtHash, CtDigest>>)
CtAnnounce == ScTuple(<<CtHash, ScCompact, CtHash, CtHash, CtDigest, ScBool>>)
CtHandshake == ScTuple(<<ScU(1), ScU(4), CtHash, CtHash>>)
CtBody == ScSlice(ScBytes)
CtTxMsg == ScTuple(<<CtBody>>)
CtVrf == ScTuple(<<ScU(4), ScU(8), ScU(32), ScU(64)>>)
CtBabePre == ScEnum("BabePre", << [i |-> 1, t |-> CtVrf], [i |-> 2, t |-> ScTuple(<<ScU(4), ScU(8)>>)], [i |-> 3, t |-> CtVrf] >>)
CtVote == ScTuple(<<CtHash, ScU(4)>>)
CtSignedVote == ScTuple(<<CtVote, ScU(64), ScU(32)>>)

(* ---- GRANDPA gossip (lib/grandpa/message.go) -------------------------------------*)
CtSignedMessage == ScTuple(<<ScU(1), CtHash, ScU(4), ScU(64), ScU(32)>>)
CtVoteMessage == ScTuple(<<ScU(8), ScU(8), CtSignedMessage>>)
CtAuthData == ScTuple(<<ScU(64), ScU(32)>>)
CtCommitMessage == ScTuple(<<ScU(8), ScU(8), CtVote, ScSlice(CtVote), ScSlice(CtAuthData)>>)
CtNeighbour == ScEnum("VersionedNeighbourPacket", << [i |-> 1, t |-> ScTuple(<<ScU(8), ScU(8), ScU(4)>>)] >>)
CtCatchUpRequest == ScTuple(<<ScU(8), ScU(8)>>)
CtCatchUpResponse == ScTuple(<<ScU(8), ScU(8), ScSlice(CtSignedVote), ScSlice(CtSignedVote), CtHash, ScU(4)>>)
CtGrandpaMsg == ScEnum("GrandpaMessage", << [i |-> 0, t |-> CtVoteMessage], [i |-> 1, t |-> CtCommitMessage], [i |-> 2, t |-> CtNeighbour],
                                            [i |-> 3, t |-> CtCatchUpRequest], [i |-> 4, t |-> CtCatchUpResponse] >>)
(* ---- commits / justifications ---------------------------------------------------------*)
CtCommit == ScTuple(<<CtHash, ScU(4), ScSlice(CtSignedVote)>>)
CtJustification == ScTuple(<<ScU(8), CtCommit>>)
CtPrimVote(w) == ScTuple(<<CtHash, ScU(w)>>)
CtPrimSigned(w) == ScTuple(<<CtPrimVote(w), ScU(64), ScU(32)>>)
CtPrimCommit(w) == ScTuple(<<CtHash, ScU(w), ScSlice(CtPrimSigned(w))>>)
CtPrimJust(w) == ScTuple(<<ScU(8), CtPrimCommit(w), ScSlice(CtHeader)>>)
CtPrimSignedMsg(w) == ScTuple(<<ScEnum("Message", << [i |-> 0, t |-> CtPrimVote(w)], [i |-> 1, t |-> CtPrimVote(w)], [i |-> 2, t |-> CtPrimVote(w)] >>),
                                ScU(64), ScU(32)>>)
(* warp sync proof (sc-consensus-grandpa warp_proof.rs): Vec<(header, justification)> and "is finished" *)
CtWarpProof(w) == ScTuple(<<ScSlice(ScTuple(<<CtHeader, CtPrimJust(w)>>)), ScBool>>)
(* ---- consensus digests (dot/types/consensus_digest.go) ------------------------------------*)
CtAuthority == ScTuple(<<ScU(32), ScU(8)>>)
CtUnit == ScTuple(<<>>)
CtAllowedSlots == ScEnum("AllowedSlots", << [i |-> 0, t |-> CtUnit], [i |-> 1, t |-> CtUnit], [i |-> 2, t |-> CtUnit] >>)
CtNextConfig == ScEnum("NextConfigDescriptor", << [i |-> 1, t |-> ScTuple(<<ScU(8), ScU(8), CtAllowedSlots>>)] >>)
CtBabeCons == ScEnum("BabeConsensusLog", << [i |-> 1, t |-> ScTuple(<<ScSlice(CtAuthority), ScU(32)>>)], [i |-> 2, t |-> ScU(4)],
                                            [i |-> 3, t |-> CtNextConfig] >>)
CtGrandpaCons == ScEnum("GrandpaConsensusLog", << [i |-> 1, t |-> ScTuple(<<ScSlice(CtAuthority), ScU(4)>>)],
                                                  [i |-> 2, t |-> ScTuple(<<ScU(4), ScSlice(CtAuthority), ScU(4)>>)],
                                                  [i |-> 3, t |-> ScU(8)], [i |-> 4, t |-> ScU(4)], [i |-> 5, t |-> ScU(4)] >>)

GossipNames == {"gvote", "gcommit", "gneighbour", "gcatchupreq", "gcatchupresp"}
PbNames == {"blockrequest", "blockresponse"}
CountNames == {"bodycount"}

CtType(name) == CASE name = "header" -> CtHeader
                  [] name \in GossipNames -> CtGrandpaMsg
                  [] name = "gcommitj" -> CtCommit [] name = "gjust" -> CtJustification
                  [] name = "primjust" -> CtPrimJust(4) [] name = "primjust64" -> CtPrimJust(8)
                  [] name = "primsignedmsg" -> CtPrimSignedMsg(4) [] name = "warpproof" -> CtWarpProof(4)
                  [] name = "babecons" -> CtBabeCons [] name = "grandpacons" -> CtGrandpaCons [] name = "announce" -> CtAnnounce [] name = "handshake" -> CtHandshake
                  [] name = "body" -> CtBody [] name = "txmsg" -> CtTxMsg [] name = "babepre" -> CtBabePre
                  [] name = "vote" -> CtVote [] name = "signedvote" -> CtSignedVote [] name = "digestitem" -> CtDigestItem

(* ---- small field domains: "two hashes, numbers at compact boundaries, 0-3 digest items of every kind" *)
HA == Rep(32, 0)
HB == [i \in 1..32 |-> i]
HC == Rep(32, 255)
BABE == <<66, 65, 66, 69>>
FRNK == <<70, 82, 78, 75>>
Numbers == << <<>>, <<1>>, <<63>>, <<64>>, BnPred(BnPow2(14)), BnPow2(14), BnPred(BnPow2(30)), BnPow2(30),
              BnPred(BnPow2(32)), BnPow2(32), BnPow2(40), BnPred(BnPow2(64)) >>
Items == << [i |-> 6, v |-> <<BABE, <<2, 1, 0, 0, 0, 9, 0, 0, 0, 0, 0, 0, 0>>>>], [i |-> 4, v |-> <<BABE, <<1>>>>],
            [i |-> 5, v |-> <<BABE, Rep(64, 7)>>], [i |-> 8, v |-> <<>>], [i |-> 4, v |-> <<FRNK, <<>>>>],
            [i |-> 0, v |-> <<1, 2, 3>>], [i |-> 0, v |-> <<>>] >>
Digests == << <<>>, <<Items[1]>>, <<Items[2]>>, <<Items[3]>>, <<Items[4]>>, <<Items[5]>>, <<Items[1], Items[2], Items[3]>>,
              <<Items[4], Items[1]>>, <<Items[1], Items[5], Items[4]>>, <<Items[6]>>, <<Items[1], Items[7], Items[3]>> >>
HeaderVals == [j \in 1..(Len(Numbers) + Len(Digests)) |->
                 IF j <= Len(Numbers) THEN <<ScAt(<<HA, HB, HC>>, j), Numbers[j], HB, ScAt(<<HC, HA>>, j), ScAt(Digests, j)>>
                 ELSE <<HB, ScAt(Numbers, j + 3), HC, HA, Digests[j - Len(Numbers)]>>]
VrfVals == << <<Rep(4, 0), Rep(8, 0), Rep(32, 0), Rep(64, 0)>>, <<<<1, 2, 3, 4>>, <<1, 2, 3, 4, 5, 6, 7, 8>>, HB, Rep(64, 9)>>,
              <<Rep(4, 255), Rep(8, 255), HC, Rep(64, 255)>> >>

(* ---- values of the extension ------------------------------------------------------------*)
R0 == Rep(8, 0)
R1 == <<1, 2, 3, 4, 5, 6, 7, 8>>
R2 == Rep(8, 255)
N0 == Rep(4, 0)
N1 == <<1, 2, 3, 4>>
N2 == Rep(4, 255)
SigA == Rep(64, 0)
SigB == [i \in 1..64 |-> 100 + i]
SigC == Rep(64, 255)
VoteA == <<HA, N0>>
VoteB == <<HB, N1>>
VoteC == <<HC, N2>>
SVoteA == <<VoteA, SigA, HA>>
SVoteB == <<VoteB, SigB, HC>>
SVoteC == <<VoteC, SigC, HB>>
AuthA == <<SigA, HA>>
AuthB == <<SigB, HC>>
AuthC == <<SigC, HB>>
AuthsA == << <<HB, R1>> >>
AuthsB == << <<HA, R0>>, <<HC, R2>>, <<HB, <<1, 0, 0, 0, 0, 0, 0, 0>>>> >>
W8(n) == n \o Rep(4, 0)       \* a 4-byte number widened to 8 bytes
PlainHeaders == <<HeaderVals[1], HeaderVals[13]>>    \* empty digests (internal/primitives/runtime has no digest item codec)
GossipVals(name) ==
  CASE name = "gvote" -> << [i |-> 0, v |-> <<R0, R0, <<<<0>>, HA, N0, SigA, HA>>>>], [i |-> 0, v |-> <<R1, R2, <<<<1>>, HB, N1, SigB, HC>>>>],
                            [i |-> 0, v |-> <<R2, R1, <<<<2>>, HC, N2, SigC, HB>>>>] >>
    [] name = "gcommit" -> << [i |-> 1, v |-> <<R0, R0, VoteA, <<>>, <<>>>>], [i |-> 1, v |-> <<R1, R2, VoteB, <<VoteB>>, <<AuthB>>>>],
                              [i |-> 1, v |-> <<R2, R1, VoteC, <<VoteA, VoteC>>, <<AuthA, AuthC>>>>],
                              [i |-> 1, v |-> <<R1, R1, VoteB, <<VoteA, VoteB>>, <<AuthB>>>>] >>
    [] name = "gneighbour" -> << [i |-> 2, v |-> [i |-> 1, v |-> <<R0, R0, N0>>]], [i |-> 2, v |-> [i |-> 1, v |-> <<R1, R2, N1>>]],
                                 [i |-> 2, v |-> [i |-> 1, v |-> <<R2, R1, N2>>]] >>
    [] name = "gcatchupreq" -> << [i |-> 3, v |-> <<R0, R0>>], [i |-> 3, v |-> <<R1, R2>>], [i |-> 3, v |-> <<R2, R1>>] >>
    [] name = "gcatchupresp" -> << [i |-> 4, v |-> <<R0, R0, <<>>, <<>>, HA, N0>>], [i |-> 4, v |-> <<R1, R2, <<SVoteB>>, <<SVoteA, SVoteC>>, HB, N1>>],
                                   [i |-> 4, v |-> <<R2, R1, <<SVoteA, SVoteB>>, <<SVoteC>>, HC, N2>>] >>
PrimSV(sv, w) == IF w = 4 THEN sv ELSE <<<<sv[1][1], W8(sv[1][2])>>, sv[2], sv[3]>>
(* top: the block number of the third commit (the 8-byte instantiation also gets a number above 2^32) *)
PrimJustValsX(w, top) == << <<R0, <<HA, IF w = 4 THEN N0 ELSE W8(N0), <<>>>>, <<>>>>,
                            <<R1, <<HB, IF w = 4 THEN N1 ELSE W8(N1), <<PrimSV(SVoteB, w)>>>>, <<PlainHeaders[1]>>>>,
                            <<R2, <<HC, top, <<PrimSV(SVoteA, w), PrimSV(SVoteC, w)>>>>, <<PlainHeaders[2], PlainHeaders[1]>>>> >>
PrimJustVals(w) == PrimJustValsX(w, IF w = 4 THEN N2 ELSE R2)
PrimJustSame(w) == PrimJustValsX(w, IF w = 4 THEN N2 ELSE W8(N2))    \* the same numbers in both widths
WarpProofVals(w) == << << <<>>, FALSE >>, << << <<HeaderVals[14], PrimJustSame(w)[2]>> >>, TRUE >>,
                       << << <<HeaderVals[18], PrimJustSame(w)[3]>>, <<HeaderVals[14], PrimJustSame(w)[1]>> >>, FALSE >> >>
BabeConsVals == << [i |-> 1, v |-> << <<>>, HA >>], [i |-> 1, v |-> <<AuthsA, HB>>], [i |-> 1, v |-> <<AuthsB, HC>>],
                   [i |-> 2, v |-> N0], [i |-> 2, v |-> N1], [i |-> 2, v |-> N2],
                   [i |-> 3, v |-> [i |-> 1, v |-> <<R0, R1, [i |-> 0, v |-> <<>>]>>]], [i |-> 3, v |-> [i |-> 1, v |-> <<R1, <<4, 0, 0, 0, 0, 0, 0, 0>>, [i |-> 1, v |-> <<>>]>>]],
                   [i |-> 3, v |-> [i |-> 1, v |-> <<R2, R2, [i |-> 2, v |-> <<>>]>>]] >>
GrandpaConsVals == << [i |-> 1, v |-> << <<>>, N0 >>], [i |-> 1, v |-> <<AuthsA, N1>>], [i |-> 1, v |-> <<AuthsB, N2>>],
                      [i |-> 2, v |-> <<N1, AuthsA, N2>>], [i |-> 2, v |-> <<N2, AuthsB, N0>>], [i |-> 2, v |-> <<N0, <<>>, N1>>],
                      [i |-> 3, v |-> R0], [i |-> 3, v |-> R1], [i |-> 3, v |-> R2], [i |-> 4, v |-> N0], [i |-> 4, v |-> N2],
                      [i |-> 5, v |-> N1], [i |-> 5, v |-> N2] >>

(* ---- protobuf layouts (dot/network/proto/api.v1.proto; sc-network-sync schema api.v1.proto) ---*)
(* BlockRequest: 1 fields uint32 (the attribute byte in the MOST significant byte), oneof      *)
(* from_block {2 hash bytes | 3 number bytes = little-endian u32}, 5 direction enum, 6 max_blocks *)
(* value: [fields |-> 0..255, from |-> [k |-> "hash" | "number", b |-> bytes], dir |-> 0 | 1,    *)
(*         max |-> BigNat below 2^32, zero = absent]                                            *)
CtBlockRequestEnc(v) ==
  PbScalar(1, BnTrim(<<0, 0, 0, v.fields>>)) \o PbLenField(IF v.from.k = "hash" THEN 2 ELSE 3, v.from.b)
  \o PbScalar(5, BnFromInt(v.dir)) \o PbScalar(6, v.max)
(* BlockData: 1 hash, 2 header (SCALE), 3 repeated body (each extrinsic SCALE-encoded as a byte  *)
(* string), 4 receipt, 5 message queue, 6 justification, 7 is_empty_justification.              *)
(* value: [hash, header |-> <<>> | <<header value>>, body |-> sequence of extrinsics (the wire   *)
(* cannot tell "no body" from "no extrinsics"), receipt / mq |-> bytes (empty = absent),        *)
(* just |-> <<>> absent | << <<>> >> present and empty | <<bytes>>]                              *)
CtBlockDataEnc(d) ==
  PbBytes(1, d.hash) \o (IF d.header = <<>> THEN <<>> ELSE PbLenField(2, ScEnc(CtHeader, d.header[1])))
  \o PbRepeated(3, [i \in 1..Len(d.body) |-> ScEnc(ScBytes, d.body[i])]) \o PbBytes(4, d.receipt) \o PbBytes(5, d.mq)
  \o (IF d.just = <<>> THEN <<>> ELSE IF d.just[1] = <<>> THEN PbVarintField(7, <<1>>) ELSE PbLenField(6, d.just[1]))
CtBlockResponseEnc(v) == PbRepeated(1, [i \in 1..Len(v) |-> CtBlockDataEnc(v[i])])

PbOk(v, enc, n) == [ok |-> TRUE, v |-> v, n |-> n, at |-> "", why |-> "", enc |-> enc]
PbBad(at, why) == [ok |-> FALSE, v |-> <<>>, n |-> 0, at |-> at, why |-> why, enc |-> <<>>]
(* semantic decoders (last occurrence of a scalar wins, unknown fields are skipped) *)
CtBlockRequestDec(s) ==
  LET p == PbParse(s) IN
  IF ~p.ok THEN PbBad("pb", p.why)
  ELSE LET F == {i \in 1..Len(p.fs) : p.fs[i].f \in {2, 3} /\ p.fs[i].wt = 2}
           fl == PbLast(p.fs, 1, 0)
           dr == PbLast(p.fs, 5, 0)
           mx == PbLast(p.fs, 6, 0)
       IN IF F = {} THEN PbBad("from", "missing")
          ELSE LET x == p.fs[CHOOSE i \in F : \A j \in F : j <= i] IN
               \* "number": the SCALE encoding of a u32 needs its 4 bytes (longer: left open, not generated)
               IF x.f = 3 /\ Len(x.v) < 4 THEN PbBad("from", "number")
               ELSE LET v == [fields |-> IF fl.has /\ Len(fl.v) >= 4 THEN fl.v[4] ELSE 0,
                              from |-> [k |-> IF x.f = 2 THEN "hash" ELSE "number", b |-> x.v],
                              dir |-> IF dr.has THEN BnToInt(dr.v) ELSE 0, max |-> IF mx.has THEN mx.v ELSE <<>>]
                    IN PbOk(v, CtBlockRequestEnc(v), Len(s))
CtBlockDataDec(b) ==
  LET p == PbParse(b) IN
  IF ~p.ok THEN PbBad("blockdata", p.why)
  ELSE LET hd == PbLast(p.fs, 2, 2)
           hr == ScDec(CtHeader, hd.v)
           bs == PbAll(p.fs, 3, 2)
           js == PbLast(p.fs, 6, 2)
           ej == PbLast(p.fs, 7, 0)
       IN IF hd.has /\ ~hr.ok THEN PbBad("header", hr.why)
          ELSE IF \E i \in 1..Len(bs) : ~ScDec(ScBytes, bs[i]).ok THEN PbBad("body", "extrinsic")
          ELSE PbOk([hash |-> PbLast(p.fs, 1, 2).v, header |-> IF hd.has THEN <<hr.v>> ELSE <<>>,
                     body |-> [i \in 1..Len(bs) |-> ScDec(ScBytes, bs[i]).v],
                     receipt |-> PbLast(p.fs, 4, 2).v, mq |-> PbLast(p.fs, 5, 2).v,
                     just |-> IF js.has /\ js.v # <<>> THEN <<js.v>> ELSE IF ej.has /\ ej.v # <<>> THEN << <<>> >> ELSE <<>>], <<>>, Len(b))
CtBlockResponseDec(s) ==
  LET p == PbParse(s) IN
  IF ~p.ok THEN PbBad("pb", p.why)
  ELSE LET bs == PbAll(p.fs, 1, 2)
           ds == [i \in 1..Len(bs) |-> CtBlockDataDec(bs[i])]
       IN IF \E i \in 1..Len(ds) : ~ds[i].ok THEN ds[CHOOSE i \in 1..Len(ds) : ~ds[i].ok /\ \A j \in 1..(i - 1) : ds[j].ok]
          ELSE LET v == [i \in 1..Len(ds) |-> ds[i].v] IN PbOk(v, CtBlockResponseEnc(v), Len(s))
CtPbEnc(name, v) == IF name = "blockrequest" THEN CtBlockRequestEnc(v) ELSE CtBlockResponseEnc(v)
CtPbDec(name, s) == IF name = "blockrequest" THEN CtBlockRequestDec(s) ELSE CtBlockResponseDec(s)

BlockRequestVals == <<
  [fields |-> 19, from |-> [k |-> "number", b |-> <<1, 0, 0, 0>>], dir |-> 0, max |-> <<1>>],
  [fields |-> 1, from |-> [k |-> "hash", b |-> HB], dir |-> 1, max |-> <<128>>],
  [fields |-> 255, from |-> [k |-> "number", b |-> Rep(4, 255)], dir |-> 0, max |-> <<>>],
  [fields |-> 0, from |-> [k |-> "hash", b |-> HA], dir |-> 1, max |-> BnPred(BnPow2(32))],
  [fields |-> 16, from |-> [k |-> "number", b |-> Rep(4, 0)], dir |-> 0, max |-> <<0, 1>>],
  [fields |-> 128, from |-> [k |-> "hash", b |-> HC], dir |-> 0, max |-> <<127>>] >>
BD1 == [hash |-> HB, header |-> <<HeaderVals[14]>>, body |-> << <<1, 2, 3>>, <<>>, Rep(130, 5) >>, receipt |-> <<>>, mq |-> <<>>, just |-> << <<9, 9>> >>]
BD2 == [hash |-> HA, header |-> <<>>, body |-> <<>>, receipt |-> <<7>>, mq |-> <<8, 8>>, just |-> << <<>> >>]
BD3 == [hash |-> HC, header |-> <<HeaderVals[1]>>, body |-> << <<>> >>, receipt |-> <<>>, mq |-> <<>>, just |-> <<>>]
BD4 == [hash |-> HB, header |-> <<HeaderVals[18]>>, body |-> <<>>, receipt |-> <<>>, mq |-> <<>>, just |-> <<>>]
BlockResponseVals == << <<>>, <<BD1>>, <<BD2, BD3>>, <<BD4, BD1, BD2>> >>

(* ---- bodies whose extrinsic COUNT sits on the compact-mode boundaries ------------------------------------*)
(* value [n |-> count, fill |-> byte]: n extrinsics of the one byte fill.  TLC does not hold the long byte  *)
(* strings: the expected bytes are a descriptor [head, unit, n, tail] = head \o unit repeated n times \o tail *)
(*   scale: the SCALE body Vec<Vec<u8>>  = Compact(n) then n times (Compact(1), fill)                       *)
(*   pb:    the block response carrying one block (hash HB, no header) with that body:                      *)
(*          key(1,2) varint(34 + 4n) [ key(1,2) 32 HB ] then n times [ key(3,2) 2 Compact(1) fill ]         *)
BodyCountVals == << [n |-> 0, fill |-> 7, len |-> 1], [n |-> 1, fill |-> 7, len |-> 1], [n |-> 63, fill |-> 9, len |-> 1],
                    [n |-> 64, fill |-> 9, len |-> 1], [n |-> 65, fill |-> 9, len |-> 1],
                    [n |-> 16383, fill |-> 5, len |-> 1], [n |-> 16384, fill |-> 5, len |-> 1], [n |-> 16385, fill |-> 5, len |-> 1],
                    \* ... and bodies whose extrinsic LENGTH sits on the boundaries (the per-extrinsic compact prefix)
                    [n |-> 2, fill |-> 3, len |-> 63], [n |-> 2, fill |-> 3, len |-> 64], [n |-> 2, fill |-> 3, len |-> 65],
                    [n |-> 1, fill |-> 6, len |-> 16383], [n |-> 1, fill |-> 6, len |-> 16384], [n |-> 1, fill |-> 6, len |-> 16385] >>
CtBodyUnit(v) == ScCompactInt(v.len) \o [i \in 1..v.len |-> v.fill]
CtBodyDesc(v) == [head |-> ScCompactInt(v.n), unit |-> CtBodyUnit(v), n |-> v.n, tail |-> <<>>]
CtBodyPbDesc(v) == [head |-> IF v.n = 0 THEN PbLenField(1, PbLenField(1, HB))
                             ELSE PbKey(1, 2) \o PbVarint(BnFromInt(34 + v.n * Len(PbLenField(3, CtBodyUnit(v))))) \o PbLenField(1, HB),
                    unit |-> PbLenField(3, CtBodyUnit(v)), n |-> v.n, tail |-> <<>>]
CtExpand(d) == d.head \o [i \in 1..(d.n * Len(d.unit)) |-> d.unit[((i - 1) % Len(d.unit)) + 1]] \o d.tail
CtVals(name) ==
  CASE name = "header" -> HeaderVals
    [] name = "bodycount" -> BodyCountVals
    [] name \in GossipNames -> GossipVals(name)
    [] name = "gcommitj" -> << <<HA, N0, <<>>>>, <<HB, N1, <<SVoteB>>>>, <<HC, N2, <<SVoteA, SVoteC>>>> >>
    [] name = "gjust" -> << <<R0, <<HA, N0, <<>>>>>>, <<R1, <<HB, N1, <<SVoteB>>>>>>, <<R2, <<HC, N2, <<SVoteA, SVoteC>>>>>> >>
    [] name = "primjust" -> PrimJustVals(4) [] name = "primjust64" -> PrimJustVals(8)
    [] name = "primsignedmsg" -> << <<[i |-> 0, v |-> VoteA], SigA, HA>>, <<[i |-> 1, v |-> VoteB], SigB, HC>>, <<[i |-> 2, v |-> VoteC], SigC, HB>> >>
    [] name = "babecons" -> BabeConsVals [] name = "grandpacons" -> GrandpaConsVals
    [] name = "warpproof" -> WarpProofVals(4)
    [] name = "blockrequest" -> BlockRequestVals [] name = "blockresponse" -> BlockResponseVals
    [] name = "announce" -> [j \in 1..Len(HeaderVals) |-> HeaderVals[j] \o <<j % 2 = 0>>]
    [] name = "handshake" -> << <<<<1>>, Rep(4, 0), HA, HB>>, <<<<4>>, <<1, 2, 3, 4>>, HB, HC>>, <<<<2>>, Rep(4, 255), HC, HA>>, <<<<9>>, <<0, 1, 0, 0>>, HB, HB>> >>
    [] name = "body" -> << <<>>, << <<>> >>, << <<1, 2, 3>> >>, << <<4>>, <<>>, Rep(64, 5) >> >>
    [] name = "txmsg" -> << << <<>> >>, << << <<1, 2, 3>> >> >>, << << <<4>>, <<5, 6>>, Rep(63, 5) >> >> >>
    [] name = "babepre" -> [j \in 1..3 |-> [i |-> 1, v |-> VrfVals[j]]] \o [j \in 1..3 |-> [i |-> 3, v |-> VrfVals[j]]]
                           \o [j \in 1..3 |-> [i |-> 2, v |-> <<VrfVals[j][1], VrfVals[j][2]>>]]
    [] name = "vote" -> << <<HA, Rep(4, 0)>>, <<HB, <<1, 2, 3, 4>>>>, <<HC, Rep(4, 255)>> >>
    [] name = "signedvote" -> << <<<<HA, Rep(4, 0)>>, Rep(64, 0), HA>>, <<<<HB, <<1, 2, 3, 4>>>>, Rep(64, 9), HC>> >>
    [] name = "digestitem" -> Items

CtHeaderHash(v) == H(ScEnc(CtHeader, v))

(* ---- structure-aware mutations of a wire message (C33: "mutated valid encodings, and crafted length prefixes") ---*)
(* offsets (bytes BEFORE it) of every discriminant ("tag") and every length prefix ("len", n = declared count) *)
RECURSIVE CtMarks(_, _, _), CtMarksSeq(_, _, _), CtMarksFields(_, _, _, _)
CtMarksSeq(t, vs, off) == IF vs = <<>> THEN {} ELSE CtMarks(t, vs[1], off) \cup CtMarksSeq(t, Tail(vs), off + Len(ScEnc(t, vs[1])))
CtMarksFields(fs, vs, ord, off) ==
  IF ord = <<>> THEN {} ELSE CtMarks(fs[ord[1]], vs[ord[1]], off) \cup CtMarksFields(fs, vs, Tail(ord), off + Len(ScEnc(fs[ord[1]], vs[ord[1]])))
CtMarks(t, v, off) ==
  CASE t.k \in {"bytes", "str"} -> {[p |-> off, k |-> "len", n |-> Len(v)]}
    [] t.k = "bool" -> {[p |-> off, k |-> "tag", n |-> 0]}
    [] t.k = "opt" -> {[p |-> off, k |-> "tag", n |-> 0]} \cup (IF v = <<>> THEN {} ELSE CtMarks(t.t, v[1], off + 1))
    [] t.k = "enum" -> {[p |-> off, k |-> "tag", n |-> 0]} \cup CtMarks(ScVariant(t, v.i).t, v.v, off + 1)
    [] t.k = "slice" -> {[p |-> off, k |-> "len", n |-> Len(v)]} \cup CtMarksSeq(t.t, v, off + Len(ScCompactInt(Len(v))))
    [] t.k = "arr" -> CtMarksSeq(t.t, v, off)
    [] t.k = "struct" -> CtMarksFields(t.fs, v, ScFieldOrder(t.tags), off)
    [] OTHER -> {}
CtSplice(e, off, cut, ins) == SubSeq(e, 1, off) \o ins \o SubSeq(e, off + cut + 1, Len(e))
CtTagVals == {0, 1, 2, 3, 4, 5, 6, 7, 128, 255}
CtLenHeads(n) == {ScCompactInt(n + 1), <<2, 0, 4, 0>>, <<2, 0, 64, 0>>, <<254, 255, 255, 255>>, <<3, 0, 0, 0, 64>>, <<3, 255, 255, 255, 255>>,
                  <<7, 0, 0, 0, 0, 1>>, <<19, 0, 0, 0, 0, 0, 0, 0, 1>>}
                 \cup (IF n > 0 THEN {ScCompactInt(n - 1)} ELSE {}) \cup ScCompactWidened(BnFromInt(n))
CtWireMutations(t, v) ==
  LET e == ScEnc(t, v)
      M == CtMarks(t, v, 0)
  IN {[mut |-> "trunc", b |-> SubSeq(e, 1, k)] : k \in 0..(Len(e) - 1)}           \* EVERY truncation
     \cup {[mut |-> "junk", b |-> e \o <<170>>], [mut |-> "valid", b |-> e]}
     \cup UNION {{[mut |-> "tag", b |-> [e EXCEPT ![m.p + 1] = x]] : x \in CtTagVals \ {e[m.p + 1]}} : m \in {m \in M : m.k = "tag"}}
     \cup UNION {{[mut |-> "len", b |-> CtSplice(e, m.p, Len(ScCompactInt(m.n)), h)] : h \in CtLenHeads(m.n)} : m \in {m \in M : m.k = "len"}}
     \cup UNION {{[mut |-> "flip", b |-> [e EXCEPT ![q] = x]] : x \in FlipVals(e[q]) \ {e[q]}} : q \in FlipPos(e)}
(* protobuf: every truncation, and what a peer can put around a valid request *)
CtPbMutations(name, v) ==
  LET e == CtPbEnc(name, v) IN
  {[mut |-> "trunc", b |-> SubSeq(e, 1, k)] : k \in 0..(Len(e) - 1)} \cup {[mut |-> "valid", b |-> e]}
  \cup (IF name # "blockrequest" THEN {}
        ELSE {[mut |-> "unknown-field", b |-> e \o PbVarintField(9, <<5>>)], [mut |-> "unknown-field", b |-> PbLenField(15, <<1, 2>>) \o e],
              [mut |-> "dup-max", b |-> e \o PbVarintField(6, <<3>>)],
              [mut |-> "both-from", b |-> e \o PbLenField(2, HB)], [mut |-> "both-from", b |-> e \o PbLenField(3, <<9, 0, 0, 0>>)],
              [mut |-> "no-from", b |-> PbScalar(1, BnTrim(<<0, 0, 0, v.fields>>)) \o PbScalar(6, v.max)],
              [mut |-> "fixed-field", b |-> e \o PbKey(12, 5) \o <<1, 2, 3, 4>>], [mut |-> "fixed-field", b |-> e \o PbKey(12, 1) \o <<1, 2, 3, 4>>]}
             \cup {[mut |-> "short-number", b |-> PbLenField(3, SubSeq(<<7, 0, 0>>, 1, k)) \o PbScalar(6, <<1>>)] : k \in 0..3})

CtEncCase(name, i) == [op |-> "enc", ty |-> name, v |-> CtVals(name)[i]]
CtDecCases(name, i) ==
  IF name \in CountNames THEN {[op |-> "dec", ty |-> name, v |-> CtVals(name)[i], mut |-> "valid"]} ELSE
  {[op |-> "dec", ty |-> name, b |-> m.b, mut |-> m.mut] :
     m \in IF name \in GossipNames THEN CtWireMutations(CtType(name), CtVals(name)[i])
           ELSE IF name \in PbNames THEN CtPbMutations(name, CtVals(name)[i])
           ELSE Mutations(CtType(name), CtVals(name)[i])}
(* a consensus digest travels as the payload of DigestItem::Consensus (index 4) under its engine id *)
CtAsItem(name, v) == IF name = "babecons" THEN ScEnc(CtDigestItem, [i |-> 4, v |-> <<BABE, ScEnc(CtBabeCons, v)>>])
                     ELSE IF name = "grandpacons" THEN ScEnc(CtDigestItem, [i |-> 4, v |-> <<FRNK, ScEnc(CtGrandpaCons, v)>>])
                     ELSE <<>>
(* the same warp proof with 8-byte block numbers: NOT the specified layout (Polkadot block numbers are u32); emitted *)
(* only so that the harness can name a disagreement that is exactly this                                              *)
CtAlt(o) == IF o.ty = "warpproof" /\ \E i \in 1..Len(WarpProofVals(4)) : WarpProofVals(4)[i] = o.v
            THEN ScEnc(CtWarpProof(8), WarpProofVals(8)[CHOOSE i \in 1..Len(WarpProofVals(4)) : WarpProofVals(4)[i] = o.v])
            ELSE <<>>
CtResult(o) == IF o.ty \in CountNames
               THEN [ok |-> TRUE, scale |-> CtBodyDesc(o.v), pb |-> CtBodyPbDesc(o.v), enc |-> <<>>, hash |-> <<>>, item |-> <<>>, alt |-> <<>>]
               ELSE IF o.op = "enc"
               THEN [enc |-> IF o.ty \in PbNames THEN CtPbEnc(o.ty, o.v) ELSE ScEnc(CtType(o.ty), o.v),
                     hash |-> IF o.ty = "header" THEN CtHeaderHash(o.v) ELSE <<>>, item |-> CtAsItem(o.ty, o.v), alt |-> CtAlt(o)]
               ELSE IF o.ty \in PbNames THEN CtPbDec(o.ty, o.b) ELSE ScDec(CtType(o.ty), o.b)
CtStep(o) == /\ hist' = Append(hist, [o |-> o, res |-> CtResult(o)])
             /\ UNCHANGED <<done, part>>
CtInit == hist = <<>> /\ done = FALSE /\ part \in TyNames
CtNext == \/ /\ ~done /\ Len(hist) < Depth
             /\ \E i \in 1..Len(CtVals(part)) :
                   \/ "rt" \in CaseKinds /\ CtStep(CtEncCase(part, i))
                   \/ "dec" \in CaseKinds /\ \E o \in CtDecCases(part, i) : CtStep(o)
          \/ Finish
CtSpec == CtInit /\ [][CtNext]_vars

(* ---- random cases (generator, -simulate): random values of the SCALE wire layouts, and for the gossip enum random ---*)
(* mutations of their encodings (RandVal / RandMut of ScaleCodec.tla); makes the quick tier depend on the seed and   *)
(* the thorough tier explore values beyond the hand-picked ones                                                    *)
CtGossipName(i) == CASE i = 0 -> "gvote" [] i = 1 -> "gcommit" [] i = 2 -> "gneighbour" [] i = 3 -> "gcatchupreq" [] OTHER -> "gcatchupresp"
CtRandNames == <<"gossip", "gossip", "gcommitj", "gjust", "babecons", "grandpacons", "primsignedmsg">>
CtRandCase(z) ==
  LET nm == IF "dec" \in CaseKinds THEN "gossip" ELSE CtRandNames[RE(1..Len(CtRandNames), z)]
      t == IF nm = "gossip" THEN CtGrandpaMsg ELSE CtType(nm)
      v == RandVal(t, z)
      ty == IF nm = "gossip" THEN CtGossipName(v.i) ELSE nm
  IN IF "dec" \in CaseKinds
     THEN LET m == RandMut(t, v, z) IN [op |-> "dec", ty |-> ty, b |-> m.b, mut |-> m.mut]
     ELSE [op |-> "enc", ty |-> ty, v |-> v]
CtInitRand == hist = <<>> /\ done = FALSE /\ part = "gossip"
CtNextRand == (~done /\ Len(hist) < Depth /\ \E o \in {CtRandCase(Len(hist))} : CtStep(o)) \/ Finish
CtSpecRand == CtInitRand /\ [][CtNextRand]_vars

(* ---- laws -------------------------------------------------------------------*)
(* protobuf layouts: the bytes parse back into ascending fields that re-serialise to the same bytes (canonical    *)
(* form), the semantic decoder gives back the value, and every strict prefix either fails to parse or, cut at a   *)
(* field boundary, decodes to a value whose canonical encoding is that prefix                                     *)
CtPbEncLaw(name, v) ==
  LET e == CtPbEnc(name, v)
      p == PbParse(e)
      r == CtPbDec(name, e)
  IN /\ p.ok /\ PbAscending(p.fs) /\ PbUnparse(p.fs) = e
     /\ r.ok /\ r.v = v /\ r.enc = e
     /\ name = "blockresponse" => \A i \in 1..Len(p.fs) : p.fs[i].f = 1 /\ p.fs[i].wt = 2 /\ PbParse(p.fs[i].v).ok /\ PbAscending(PbParse(p.fs[i].v).fs)
     /\ \A k \in 0..(Len(e) - 1) : LET q == CtPbDec(name, SubSeq(e, 1, k)) IN q.ok => q.enc = SubSeq(e, 1, k)
(* an accepted input decodes to a value whose canonical encoding decodes to the same value *)
CtPbDecLaw(name, b) == LET r == CtPbDec(name, b) IN r.ok => (LET q == CtPbDec(name, r.enc) IN q.ok /\ q.v = r.v /\ q.enc = r.enc)
(* the descriptors: the head carries the canonical Compact(count) / varint(length), whose width changes exactly at *)
(* 2^6 and 2^14; for counts TLC can expand, the expansion IS the layout of CtBody / CtBlockResponseEnc             *)
CtBodyCountLaw(v) ==
  LET d == CtBodyDesc(v)
      q == CtBodyPbDesc(v)
      r == ScCompactDec(d.head, 4, "len")
      body == [i \in 1..v.n |-> [j \in 1..v.len |-> v.fill]]
  IN /\ r.ok /\ r.n = Len(d.head) /\ BnToInt(r.v) = v.n
     /\ Len(d.head) = (IF v.n < 64 THEN 1 ELSE IF v.n < 16384 THEN 2 ELSE 4)
     /\ \A w \in ScCompactWidened(BnFromInt(v.n)) : ~ScCompactDec(w, 4, "len").ok
     /\ (v.n <= 65 /\ v.len <= 65) => /\ CtExpand(d) = ScEnc(CtBody, body)
                     /\ CtExpand(q) = CtBlockResponseEnc(<<[hash |-> HB, header |-> <<>>, body |-> body, receipt |-> <<>>, mq |-> <<>>, just |-> <<>>]>>)
                     /\ CtBlockResponseDec(CtExpand(q)).ok /\ CtBlockResponseDec(CtExpand(q)).v[1].body = body
CtCaseLaw(o) ==
  IF o.ty \in CountNames THEN CtBodyCountLaw(o.v) ELSE
  IF o.ty \in PbNames THEN (IF o.op = "enc" THEN CtPbEncLaw(o.ty, o.v) ELSE CtPbDecLaw(o.ty, o.b))
  ELSE LET t == CtType(o.ty) IN
       IF o.op = "enc" THEN RoundTrip(t, o.v) /\ PrefixFree(t, o.v) /\ SuffixIndependent(t, o.v)
                            /\ (o.ty \in GossipNames => \A k \in 0..(Len(ScEnc(t, o.v)) - 1) : ~ScDec(t, SubSeq(ScEnc(t, o.v), 1, k)).ok)
       ELSE DecSound(t, o.b)
CtLaws == \A i \in 1..Len(hist) : CtCaseLaw(hist[i].o)
(* distinct headers have distinct hashes (token injectivity = collision freeness) *)
CtHashSeparates == (hist = <<>> /\ part = "header") =>
  \A i, j \in 1..Len(HeaderVals) : HeaderVals[i] # HeaderVals[j] => CtHeaderHash(HeaderVals[i]) # CtHeaderHash(HeaderVals[j])
(* the announce layout is the header layout followed by one bool *)
CtAnnounceIsHeaderPlusBool == (hist = <<>> /\ part = "announce") =>
  \A j \in 1..Len(HeaderVals) : ScEnc(CtAnnounce, HeaderVals[j] \o <<TRUE>>) = ScEnc(CtHeader, HeaderVals[j]) \o <<1>>
(* a consensus digest item is the tag 4, the engine id, and the log as a length-prefixed byte string *)
CtConsensusEmbeds == (hist = <<>> /\ part \in {"babecons", "grandpacons"}) =>
  \A j \in 1..Len(CtVals(part)) :
     LET e == ScEnc(CtType(part), CtVals(part)[j])
     IN CtAsItem(part, CtVals(part)[j]) = <<4>> \o (IF part = "babecons" THEN BABE ELSE FRNK) \o ScCompactInt(Len(e)) \o e
(* the five gossip variants are told apart by their first byte; a commit is a compact justification: the same   *)
(* votes and signatures as the justification's signed votes, regrouped                                         *)
CtGossipTags == (hist = <<>> /\ part \in GossipNames) =>
  \A j \in 1..Len(CtVals(part)) : ScEnc(CtGrandpaMsg, CtVals(part)[j])[1] = CtVals(part)[j].i
(* the 8-byte-number justification differs from the 4-byte one only in the width of the numbers *)
CtPrimWidths == (hist = <<>> /\ part = "primjust") =>
  \A j \in 1..Len(PrimJustVals(4)) :
     Len(ScEnc(CtPrimJust(8), PrimJustVals(8)[j])) = Len(ScEnc(CtPrimJust(4), PrimJustVals(4)[j])) + 4 * (1 + Len(PrimJustVals(4)[j][2][3]))
=============================================================================
