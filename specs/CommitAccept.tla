---------------------------- MODULE CommitAccept ----------------------------
(***************************************************************************)
(* C18 "Only supermajority-signed commits finalise blocks": case machine   *)
(* around lib/CommitAcceptOps.tla.  Checked direction only:                *)
(*      the code finalises the target  =>  CAEnough.                       *)
(* ("Any commit that falls short is rejected and finalises nothing.")      *)
(* A case is [n, t, es, target]; the harness (lib/grandpa, real ed25519    *)
(* signatures, real BlockState) realises the entry SET in several orders   *)
(* and with repeated entries and calls Service.handleCommitMessage.        *)
(***************************************************************************)
EXTENDS CommitAcceptOps, TLC, Json

CONSTANTS Trees, Ns, Sigs, MaxEntries, CasesPerBehaviour

VARIABLES cs, hist, done
vars == <<cs, hist, done>>

CVerdict(c) ==
  [enough   |-> CAEnough(c.n, c.t, c.es, c.target),
   weight   |-> CAWeight(c.n, c.t, c.es, c.target),
   offByOne |-> CAOffByOne(c.n, c.t, c.es, c.target),
   impl     |-> CAImplAccepts(c.n, c.t, c.es, c.target),
   implCount |-> CAImplCount(c.n, c.t, c.es, c.target)]

Universe(n, t) == {[id |-> i, b |-> b, sig |-> s] : i \in 1..(n + 1), b \in VFBlocks(t), s \in Sigs}

Init == /\ \E t \in Trees, n \in Ns : \E tg \in VFBlocks(t) : cs = [n |-> n, t |-> t, es |-> {}, target |-> tg]
        /\ hist = <<>> /\ done = FALSE
AddEntry(e) == /\ Cardinality(cs.es) < MaxEntries /\ e \notin cs.es
               /\ cs' = [cs EXCEPT !.es = @ \cup {e}]
               /\ UNCHANGED <<hist, done>>
NextAll == \E e \in Universe(cs.n, cs.t) : AddEntry(e)

RE(S) == RandomElement({x \in S : Len(hist) >= 0})

RECURSIVE RandEntries(_, _, _, _, _)
RandEntries(n, t, k, near, clean) ==
  IF k = 0 THEN {}
  ELSE RandEntries(n, t, k - 1, near, clean) \cup
       {[id |-> IF clean \/ RE(1..4) # 1 THEN RE(1..n) ELSE n + 1,
         b |-> IF RE(1..4) = 1 THEN RE(VFBlocks(t)) ELSE RE(near),
         sig |-> IF clean \/ RE(1..3) # 1 THEN "ok" ELSE RE(Sigs)]}

RandCase ==
  LET t == RE(Trees)
      n == RE(Ns)
      (* mostly a target above the (already final) root *)
      tg == IF Len(t) > 1 /\ RE(1..6) # 1 THEN RE(2..Len(t)) ELSE RE(VFBlocks(t))
      near == {b \in VFBlocks(t) : VFGeq(t, b, tg)}
      clean == RE(1..2) = 1
      (* sizes around the two-thirds boundary *)
      k == RE({x \in 0..MaxEntries : x <= n + 2})
  IN [n |-> n, t |-> t, es |-> RandEntries(n, t, k, near, clean), target |-> tg]

Gen == /\ ~done /\ Len(hist) < CasesPerBehaviour
       /\ hist' = Append(hist, RandCase) /\ UNCHANGED <<cs, done>>
Finish == /\ ~done /\ Len(hist) >= CasesPerBehaviour
          /\ done' = TRUE /\ UNCHANGED <<cs, hist>>
NextRand == Gen \/ Finish
SpecAll == Init /\ [][NextAll]_vars
SpecRand == Init /\ [][NextRand]_vars
Dump == done => PrintT(<<"TRACE", ToJson([i \in 1..Len(hist) |-> [o |-> hist[i], res |-> CVerdict(hist[i])]])>>)
View == cs

--------------------------------------------------------------------------
(* ---- properties of the specification (engine M) ----------------------- *)

(* stated without the vote machinery: enough => more than two thirds of    *)
(* the authorities are DISTINCT signers of a valid entry that is for the   *)
(* target or a descendant, or of two valid entries for different blocks    *)
SafetyCore ==
  CAEnough(cs.n, cs.t, cs.es, cs.target) =>
    LET V == CAValid(cs.n, cs.es)
        backers == {a \in 1..cs.n : (\E e \in V : e.id = a /\ VFGeq(cs.t, e.b, cs.target))
                                     \/ (\E e, f \in V : e.id = a /\ f.id = a /\ e.b # f.b)}
    IN 3 * Cardinality(backers) > 2 * cs.n

(* invalid and non-authority entries never matter *)
InvalidIgnored ==
  CAWeight(cs.n, cs.t, cs.es, cs.target) = CAWeight(cs.n, cs.t, CAValid(cs.n, cs.es), cs.target)

(* the weight never exceeds the number of authorities with a valid entry *)
Bounded == CAWeight(cs.n, cs.t, cs.es, cs.target) <= Cardinality({e.id : e \in CAValid(cs.n, cs.es)})

(* the implementation-shaped predicate is weaker than the property: every  *)
(* commit that is enough is accepted by it (so its defects are only false  *)
(* acceptances)                                                            *)
ImplWeaker == CAEnough(cs.n, cs.t, cs.es, cs.target) => CAImplAccepts(cs.n, cs.t, cs.es, cs.target)

(* monotone in honest support: one more valid entry never loses weight *)
MonoStep == CAWeight(cs.n, cs.t, cs.es, cs.target) <= CAWeight(cs'.n, cs'.t, cs'.es, cs'.target)
Monotone == [][MonoStep]_vars
=============================================================================
