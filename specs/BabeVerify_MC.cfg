SPECIFICATION SpecAll
INVARIANTS TypeOK InvOwnClaimsPass InvOnlyAuthorised InvKindMatchesConfig InvNeedsOwnSeal InvNeedsOwnVrf InvTamperRejected InvReasonConsistent InvIrrelevant
CHECK_DEADLOCK FALSE
