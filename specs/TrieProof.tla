------------------------------ MODULE TrieProof ------------------------------
(***************************************************************************)
(* C05  Storage read proofs are complete and sound.                        *)
(*  "A read proof generated from stored state for any set of keys lets a   *)
(*   verifier confirm exactly the values present under that state root,    *)
(*   for both state versions."                                             *)
(*        -> ProofNodes(m, v1, K), Complete                                *)
(*  "Verification never confirms a key/value pair that is absent from the  *)
(*   state with that root, whatever proof nodes are supplied."             *)
(*        -> VerifySpec over an ARBITRARY set of byte strings, Sound       *)
(*  "adversarial proof node sets (omitted, duplicated, foreign or altered   *)
(*   nodes)" -> Supplies: honest, honest + a foreign state's blobs, foreign *)
(*   blobs + root node, honest minus one blob, honest + the DIGESTS of the  *)
(*   hashed values as items of their own (with the digest also queried as   *)
(*   if it were the value)                                                  *)
(* A proof is a set of blobs; verifying (k, v) is walking the blobs from   *)
(* the one whose hash is the root (TrieCodec!Lookup) and reaching v.       *)
(***************************************************************************)
EXTENDS TrieCodec, TLC, Json

CONSTANTS PKeys, PVals, PProbe, PNum

VARIABLES pm, pv1, pm2, hist, done
pvars == <<pm, pv1, pm2, hist, done>>

(* the blobs a verifier needs for key k: every hash-addressed node on the  *)
(* path of k (present or absent) and the raw value when it is stored by    *)
(* hash                                                                    *)
RECURSIVE PathAt(_, _, _)
PathAt(d, enc, nk) ==
  LET dec == DecN(enc) IN
  IF ~dec.ok THEN {}
  ELSE LET n == dec.node
           ValBlobs(val) == IF val.t = "hashed" /\ Has(d, val.b) THEN {Fetch(d, val.b)} ELSE {}
       IN
    IF n.kind = "empty" THEN {}
    ELSE IF n.kind = "leaf" THEN (IF n.pk = nk THEN ValBlobs(n.val) ELSE {})
    ELSE IF n.pk = nk THEN ValBlobs(n.val)
    ELSE IF IsPrefixOf(n.pk, nk) /\ Len(nk) > Len(n.pk)
    THEN LET kid == n.kids[nk[Len(n.pk) + 1]]
             rest == Drop(nk, Len(n.pk) + 1)
         IN CASE kid.t = "inline" -> PathAt(d, kid.b, rest)
              [] kid.t = "hash" -> (IF Has(d, kid.b) THEN {Fetch(d, kid.b)} \cup PathAt(d, Fetch(d, kid.b), rest) ELSE {})
              [] OTHER -> {}
    ELSE {}

ProofNodes(m, v1, K) ==
  LET d == Rows(m, v1) IN
  {RootEnc(m, v1)} \cup UNION {PathAt(d, RootEnc(m, v1), KeyToNibbles(k)) : k \in K}

VerifySpec(N, root, k, v) == Lookup(N, root, k) = Found(v)

PRestr(mm, K) == [k \in K |-> mm[k]]
PMaps == UNION {[D -> PVals] : D \in SUBSET PKeys}
PAll == PKeys \cup PProbe
PEntries(mm) == LET ks == SortedSeq(DOMAIN mm) IN [i \in 1..Len(ks) |-> <<ks[i], mm[ks[i]]>>]

--------------------------------------------------------------------------
(* ---- engine M: every (state, foreign state) pair is an initial state ---- *)

PInit == pm \in PMaps /\ pv1 \in BOOLEAN /\ pm2 \in PMaps /\ hist = <<>> /\ done = FALSE
PNext == UNCHANGED pvars
PSpec == PInit /\ [][PNext]_pvars

KeySets == {{k} : k \in PAll} \cup {PAll, PKeys}

(* completeness: the generated proof confirms every present value of the  *)
(* requested keys, and shows the absent ones absent                       *)
Complete ==
  \A K \in KeySets :
    LET N == ProofNodes(pm, pv1, K) IN
    \A k \in K : IF k \in DOMAIN pm THEN VerifySpec(N, Root(pm, pv1), k, pm[k])
                 ELSE Lookup(N, Root(pm, pv1), k) = Absent

(* soundness: whatever is supplied -- the honest proof with a blob removed, *)
(* the honest proof mixed with every blob of a FOREIGN state (either        *)
(* version), foreign blobs only -- nothing but the state's own pairs is     *)
(* confirmed                                                                *)
(* the 32-byte DIGESTS of the values the state stores by hash, offered as    *)
(* proof items of their own: a verifier that files a short item under its   *)
(* own bytes (instead of under its hash) would read the digest back as the  *)
(* value of the key                                                         *)
Digests(mm, ver) == {H(mm[k]) : k \in {x \in DOMAIN mm : ValueHashed(mm[x], ver)}}
AllDigests == {H(v) : v \in {x \in PVals : Len(x) > 32}}

Supplies ==
  LET N == ProofNodes(pm, pv1, PAll)
      F == Rows(pm2, TRUE) \cup Rows(pm2, FALSE)
      D == AllDigests
  IN {N, N \cup F, F, F \cup {RootEnc(pm, pv1)}, N \cup D} \cup {N \ {x} : x \in N} \cup {(N \ {x}) \cup F : x \in N}
     \cup {(N \ {x}) \cup D : x \in N}

(* ... and the digest is also offered as if it were the value: the state     *)
(* holds the value, not its digest                                          *)
Sound ==
  \A N \in Supplies : \A k \in PAll : \A v \in PVals \cup {<<>>} \cup AllDigests :
    VerifySpec(N, Root(pm, pv1), k, v) => (k \in DOMAIN pm /\ pm[k] = v)

PView == <<pm, pv1, pm2>>

--------------------------------------------------------------------------
(* ---- engine G: cases for the harness ------------------------------------ *)


Queries(N, mm, ver) ==
  LET Q == {<<k, v>> : k \in PAll, v \in PVals \cup {<<>>}}
           \cup {<<k, H(mm[k])>> : k \in {x \in DOMAIN mm : ValueHashed(mm[x], ver)}}   \* (key, digest of its value)
      qs == SortedSeq({q[1] \o <<-2>> \o q[2] : q \in Q})   \* only to fix an order
  IN [i \in 1..Len(qs) |->
        LET q == CHOOSE x \in Q : x[1] \o <<-2>> \o x[2] = qs[i]
        IN [k |-> q[1], v |-> q[2], accept |-> VerifySpec(N, Root(mm, ver), q[1], q[2]),
            holds |-> (q[1] \in DOMAIN mm /\ mm[q[1]] = q[2])]]

CaseOf(mm, ver, m2, K) ==
  LET N == ProofNodes(mm, ver, K)
      F == Rows(m2, ver)
      xs == SortedSeq(N \ {RootEnc(mm, ver)})
      D == Digests(mm, ver)
      \* without the value blobs: what proof.Generate emits today (see known findings), plus the digests
      NV == N \ {mm[k] : k \in {x \in DOMAIN mm : ValueHashed(mm[x], ver)}}
      Adv == <<N, N \cup F, F \cup {RootEnc(mm, ver)}>>
             \o (IF D = {} THEN <<>> ELSE <<N \cup D, NV \cup D>>)
             \o [i \in 1..Len(xs) |-> N \ {xs[i]}]
      Names == <<"honest", "honest+foreign-state", "foreign-state+root-node">>
               \o (IF D = {} THEN <<>> ELSE <<"honest+value-digests", "honest-without-values+value-digests">>)
               \o [i \in 1..Len(xs) |-> "honest-minus-one-blob"]
  IN [entries |-> PEntries(mm), v1 |-> ver, keys |-> SortedSeq(K), root |-> Root(mm, ver),
      proof |-> SortedSeq(N),
      supplies |-> [i \in 1..Len(Adv) |-> [name |-> Names[i], nodes |-> SortedSeq(Adv[i]), queries |-> Queries(Adv[i], mm, ver)]]]

GPInit == /\ pm = EmptyMap /\ pv1 = FALSE /\ pm2 = EmptyMap /\ hist = <<>> /\ done = FALSE
RandMap == LET D == RandomElement(SUBSET PKeys) IN [k \in D |-> RandomElement({v \in PVals : Len(hist) >= 0})]
GPNext ==
  \/ /\ ~done /\ Len(hist) < PNum
     /\ \E mm \in {RandMap} : \E m2 \in {RandMap} : \E ver \in {RandomElement({b \in BOOLEAN : Len(hist) >= 0})} :
        \E K \in {IF DOMAIN mm # {} /\ RandomElement({i \in 1..3 : Len(hist) >= 0}) > 1
                  THEN RandomElement({S \in SUBSET DOMAIN mm : S # {} /\ Len(hist) >= 0})   \* present keys only
                  ELSE RandomElement({S \in SUBSET PAll : S # {} /\ Len(hist) >= 0})} :
          hist' = Append(hist, CaseOf(mm, ver, m2, K))
     /\ UNCHANGED <<pm, pv1, pm2, done>>
  \/ /\ ~done /\ Len(hist) = PNum /\ done' = TRUE /\ UNCHANGED <<pm, pv1, pm2, hist>>
GPSpec == GPInit /\ [][GPNext]_pvars
PDump == done => PrintT(<<"TRACE", ToJson(hist)>>)
=============================================================================
