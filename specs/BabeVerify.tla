----------------------------- MODULE BabeVerify -----------------------------
(***************************************************************************)
(* C24  BABE verification accepts exactly authorised blocks.               *)
(*                                                                         *)
(* Property text (properties.jsonl, C24):                                  *)
(*  (S1) "A block passes BABE verification iff its author had the right    *)
(*        to produce it and sealed it."                                    *)
(*  (S2) "That means a primary claim with VRF output below the epoch       *)
(*        threshold,"                                                      *)
(*  (S3) "or a secondary claim of the kind the epoch configuration allows  *)
(*        by the authority assigned to that slot (with a valid VRF proof   *)
(*        where one is required),"                                         *)
(*  (S4) "plus a valid authority index"                                    *)
(*  (S5) "and a seal signed by that authority over the header without the  *)
(*        seal."                                                           *)
(*  (S6) "Every claim produced by the node's own slot lottery passes this  *)
(*        verification."                                                   *)
(*                                                                         *)
(* The specification is a decision table over the attributes of a          *)
(* (configuration, slot, block) triple, plus a model of the honest slot    *)
(* lottery.  A "case" describes HOW a block was made, not what the         *)
(* verifier should compute; the Go harness realises every case with real   *)
(* sr25519 keys and compares VerificationManager.VerifyBlock's verdict     *)
(* with Accept(case).                                                      *)
(*                                                                         *)
(* Attributes of a case                                                    *)
(*   cfg    epoch configuration: "primary" (SecondarySlots = 0),           *)
(*          "plain" (= 1, primary + secondary plain),                      *)
(*          "vrf"   (= 2, primary + secondary VRF)                         *)
(*   kind   kind of the claim in the pre-runtime digest                    *)
(*   idx    the claimed authority index is "assigned" (in range and the    *)
(*          slot's secondary author), "other" (in range, not the slot's    *)
(*          secondary author) or "out" (not below the number of            *)
(*          authorities)                                                   *)
(*   vrf    how the VRF output/proof in the claim were made:               *)
(*          "ok"        by the claimed authority's key over this           *)
(*                      (randomness, slot, epoch)                          *)
(*          "otherkey"  by another authority's key over this transcript    *)
(*          "otherslot" by the claimed authority's key for another slot    *)
(*          "badproof"  honest output, proof of another slot               *)
(*          "badoutput" output of another slot, honest proof               *)
(*          "none"      the claim kind carries no VRF (plain)              *)
(*   below  the 128-bit value derived from (the claim's VRF output, the    *)
(*          claimed authority's key, this transcript) is below the epoch   *)
(*          threshold                                                      *)
(*   seal   "ok" signed by the claimed authority over the header without   *)
(*          the seal; "otherkey" by another authority; "otherheader" by    *)
(*          the claimed authority over a different header; "mangled" a     *)
(*          valid seal with one bit flipped                                *)
(*   layout digest items of the header:                                    *)
(*          "pre-seal" <<pre-digest, seal>>, "pre-x-seal" <<pre-digest,    *)
(*          other item, seal>>, "pre-s-seal" <<pre-digest, ANOTHER seal    *)
(*          item, seal>> (only the LAST item is "the seal"; the signature  *)
(*          must cover everything before it, a stray seal item included;   *)
(*          for this layout "otherheader" is the header without the stray  *)
(*          seal item), "only-pre" <<pre-digest>>, "no-seal"       *)
(*          <<pre-digest, other item>> (last item is no seal), "no-pre"    *)
(*          <<other item, seal>>, "only-seal" <<seal>>, "bad-pre" the      *)
(*          pre-runtime digest does not decode as a BABE claim.            *)
(*          ("bad-pre" = empty data or an unknown claim-kind byte; a       *)
(*          TRUNCATED claim is not used: with a decoder that zero-fills    *)
(*          short input it simply is a claim for another slot, and whether *)
(*          short input is refused is the subject of C12)                  *)
(* Deliberately left out (not pinned down by the statement): a pre-digest  *)
(* that is not the first item, SecondarySlots values above 2, engine ids,  *)
(* equivocation, disabled authorities.                                     *)
(***************************************************************************)
EXTENDS Integers, Sequences, FiniteSets, TLC, Json

VARIABLES hist, done
vars == <<hist, done>>

Cfgs    == {"primary", "plain", "vrf"}
Kinds   == {"primary", "plain", "vrf"}
IdxCl   == {"assigned", "other", "out"}
VrfCl   == {"ok", "otherkey", "otherslot", "badproof", "badoutput"}
SealCl  == {"ok", "otherkey", "otherheader", "mangled"}
Layouts == {"pre-seal", "pre-x-seal", "pre-s-seal", "only-pre", "no-seal", "no-pre", "only-seal", "bad-pre"}

(* well-formed cases: attributes that have no meaning are fixed.           *)
WellFormed(c) ==
  /\ (c.kind = "plain") <=> (c.vrf = "none")
  /\ (c.kind = "plain") => ~c.below
  /\ (c.idx = "out") => (c.vrf \in {"ok", "none"} /\ ~c.below /\ c.seal = "ok")
     \* no authority, no key: "ok" then means "made with the key of authority idx mod n"

AllCases ==
  { c \in [cfg : Cfgs, kind : Kinds, idx : IdxCl, vrf : VrfCl \cup {"none"}, below : BOOLEAN,
           seal : SealCl, layout : Layouts] : WellFormed(c) }

----------------------------------------------------------------------------
(* The decision table.                                                     *)

(* (S4) valid authority index *)
IndexValid(c) == c.idx # "out"

(* (S2) primary claim with VRF output below the epoch threshold; the       *)
(* output only counts if it is the claimed authority's VRF output for this *)
(* slot, i.e. the proof verifies                                           *)
PrimaryRight(c) == c.kind = "primary" /\ c.vrf = "ok" /\ c.below

(* (S3) secondary claim of the kind the configuration allows, by the       *)
(* authority assigned to the slot, with a valid VRF proof where required   *)
SecondaryKindAllowed(c) == \/ c.kind = "plain" /\ c.cfg = "plain"
                           \/ c.kind = "vrf"   /\ c.cfg = "vrf"
SecondaryRight(c) == /\ SecondaryKindAllowed(c)
                     /\ c.idx = "assigned"
                     /\ (c.kind = "vrf" => c.vrf = "ok")

Authorised(c) == IndexValid(c) /\ (PrimaryRight(c) \/ SecondaryRight(c))

(* (S5) seal by that authority over the header without the seal; there     *)
(* must be a claim to read and a seal to check                             *)
HasClaim(c) == c.layout \in {"pre-seal", "pre-x-seal", "pre-s-seal", "only-pre", "no-seal"}
HasSeal(c)  == c.layout \in {"pre-seal", "pre-x-seal", "pre-s-seal", "no-pre", "only-seal", "bad-pre"}
Sealed(c)   == HasSeal(c) /\ c.seal = "ok"

(* (S1) *)
Accept(c) == HasClaim(c) /\ Authorised(c) /\ Sealed(c)

(* first reason for a rejection, used by the harness for its classifier    *)
Reason(c) ==
  IF ~HasClaim(c) THEN "no-claim"
  ELSE IF ~HasSeal(c) THEN "no-seal"
  ELSE IF ~IndexValid(c) THEN "index-out-of-range"
  ELSE IF c.kind # "primary" /\ ~SecondaryKindAllowed(c) THEN "kind-not-allowed"
  ELSE IF c.kind # "primary" /\ c.idx # "assigned" THEN "not-slot-author"
  ELSE IF c.kind # "plain" /\ c.vrf # "ok" THEN "vrf-invalid"
  ELSE IF c.kind = "primary" /\ ~c.below THEN "above-threshold"
  ELSE IF c.seal # "ok" THEN "seal-invalid"
  ELSE "authorised"

----------------------------------------------------------------------------
(* The honest slot lottery (S6): what a node that is authority number a    *)
(* does in a slot, as a function of the configuration, whether a is the    *)
(* slot's secondary author and whether a's own VRF output is below the     *)
(* threshold.                                                              *)
Lots == [cfg : Cfgs, assigned : BOOLEAN, wins : BOOLEAN]

ClaimKind(l) ==
  IF l.wins THEN "primary"
  ELSE IF l.assigned /\ l.cfg = "plain" THEN "plain"
  ELSE IF l.assigned /\ l.cfg = "vrf" THEN "vrf"
  ELSE "none"

(* the block an honest node builds from its claim *)
HonestCase(l) ==
  [cfg |-> l.cfg, kind |-> ClaimKind(l), idx |-> IF l.assigned THEN "assigned" ELSE "other",
   vrf |-> IF ClaimKind(l) = "plain" THEN "none" ELSE "ok",
   below |-> IF ClaimKind(l) = "plain" THEN FALSE ELSE l.wins,
   seal |-> "ok", layout |-> "pre-seal"]

----------------------------------------------------------------------------
(* Theorems of the table.  Each is a predicate of one case (or one lottery *)
(* input); TLC checks it as an invariant of the enumeration below, i.e. on *)
(* ALL well-formed cases (engine M).                                       *)

(* (S6) every claim of the honest lottery is a well-formed case and passes *)
OwnClaimsPass(l) ==
  ClaimKind(l) # "none" => (HonestCase(l) \in AllCases /\ Accept(HonestCase(l)))

(* (S1, only-if) an accepted block names an in-range authority that had a  *)
(* right in this slot under this configuration: it won the primary lottery *)
(* or it is the slot's secondary author and secondary slots of that kind   *)
(* are enabled; an honest node in that situation (and not winning the      *)
(* primary lottery) claims exactly that kind.                              *)
OnlyAuthorised(c) ==
  Accept(c) =>
     /\ c.idx # "out"
     /\ \/ c.kind = "primary" /\ c.below /\ c.vrf = "ok"
        \/ c.kind # "primary" /\ c.idx = "assigned" /\ c.cfg = c.kind
     /\ c.kind # "primary" =>
          ClaimKind([cfg |-> c.cfg, assigned |-> TRUE, wins |-> FALSE]) = c.kind

(* (S3) a secondary claim never passes under a configuration that does not *)
(* allow that kind: primary-only rejects both, plain rejects VRF claims,   *)
(* VRF rejects plain claims                                                *)
KindMatchesConfig(c) == (Accept(c) /\ c.kind # "primary") => c.cfg = c.kind

(* (S5) no block passes without the claimed authority's own seal over the  *)
(* sealed header, whatever else is right                                   *)
NeedsOwnSeal(c) == Accept(c) => (c.seal = "ok" /\ c.layout \in {"pre-seal", "pre-x-seal", "pre-s-seal"})

(* (S2,S3) where a VRF proof is required, only the claimed authority's own *)
(* proof over this slot's transcript is good enough                        *)
NeedsOwnVrf(c) == (Accept(c) /\ c.kind # "plain") => c.vrf = "ok"

(* any single tampering of an accepted block that touches the seal, a      *)
(* required VRF, moves a secondary claim to another authority or lifts a   *)
(* primary output above the threshold is rejected (every attribute the     *)
(* statement names is really needed; the table has no "don't care" that    *)
(* would let a forger through)                                             *)
TamperRejected(c) ==
  Accept(c) =>
    /\ \A s \in SealCl \ {"ok"} : ~Accept([c EXCEPT !.seal = s])
    /\ c.kind # "plain" => \A v \in VrfCl \ {"ok"} : ~Accept([c EXCEPT !.vrf = v])
    /\ c.kind # "primary" => ~Accept([c EXCEPT !.idx = "other"])
    /\ c.kind = "primary" => ~Accept([c EXCEPT !.below = FALSE])
    /\ ~Accept([c EXCEPT !.idx = "out", !.below = FALSE])

(* Reason is consistent with Accept *)
ReasonConsistent(c) == (Reason(c) = "authorised") <=> Accept(c)

(* the verdict does not depend on an attribute the statement does not      *)
(* mention for that kind: `below` is irrelevant for secondary VRF claims,  *)
(* and the slot's secondary author plays no role for primary claims        *)
Irrelevant(c) ==
  /\ c.kind = "vrf" => (Accept(c) <=> Accept([c EXCEPT !.below = ~c.below]))
  /\ (c.kind = "primary" /\ c.idx # "out") =>
        (Accept(c) <=> Accept([c EXCEPT !.idx = IF c.idx = "assigned" THEN "other" ELSE "assigned"]))
  /\ c.kind = "primary" =>
        \A g \in Cfgs : Accept(c) <=> Accept([c EXCEPT !.cfg = g])

CaseTheorems(c) == /\ OnlyAuthorised(c) /\ KindMatchesConfig(c) /\ NeedsOwnSeal(c) /\ NeedsOwnVrf(c)
                   /\ TamperRejected(c) /\ ReasonConsistent(c) /\ Irrelevant(c)

----------------------------------------------------------------------------
(* Case enumeration as a (trivial) state machine: one behaviour = one case *)
(* with the verdict the table prescribes.  Two operations:                 *)
(*   "verify"  o = case,          res = [accept, reason]                   *)
(*   "claim"   o = lottery input, res = [kind, accept]  (S6)               *)
VerifyStep(c) == [o |-> [op |-> "verify"] @@ c,
                  res |-> [accept |-> Accept(c), reason |-> Reason(c)]]
ClaimStep(l)  == [o |-> [op |-> "claim"] @@ l,
                  res |-> [kind |-> ClaimKind(l),
                           accept |-> IF ClaimKind(l) = "none" THEN FALSE ELSE Accept(HonestCase(l))]]

Init == /\ done = FALSE
        /\ \/ \E c \in AllCases : hist = <<VerifyStep(c)>>
           \/ \E l \in Lots : hist = <<ClaimStep(l)>>

Finish == ~done /\ done' = TRUE /\ UNCHANGED hist
Next == Finish

SpecAll == Init /\ [][Next]_vars

TypeOK == done \in BOOLEAN /\ Len(hist) = 1

(* the case / lottery input of the current behaviour *)
CurCase == LET o == hist[1].o IN
  [cfg |-> o.cfg, kind |-> o.kind, idx |-> o.idx, vrf |-> o.vrf, below |-> o.below, seal |-> o.seal, layout |-> o.layout]
CurLot == LET o == hist[1].o IN [cfg |-> o.cfg, assigned |-> o.assigned, wins |-> o.wins]
IsVerify == hist[1].o.op = "verify"

(* invariants handed to TLC (BabeVerify_MC.cfg) *)
InvOwnClaimsPass     == ~IsVerify => (OwnClaimsPass(CurLot) /\ (hist[1].res.kind # "none" => hist[1].res.accept))
InvOnlyAuthorised    == IsVerify => OnlyAuthorised(CurCase)
InvKindMatchesConfig == IsVerify => KindMatchesConfig(CurCase)
InvNeedsOwnSeal      == IsVerify => NeedsOwnSeal(CurCase)
InvNeedsOwnVrf       == IsVerify => NeedsOwnVrf(CurCase)
InvTamperRejected    == IsVerify => TamperRejected(CurCase)
InvReasonConsistent  == IsVerify => (ReasonConsistent(CurCase) /\ hist[1].res.accept = Accept(CurCase))
InvIrrelevant        == IsVerify => Irrelevant(CurCase)

Dump == done => PrintT(<<"TRACE", ToJson(hist)>>)
=============================================================================
