SPECIFICATION SpecAll
CONSTANTS
  Trees <- MTrees3
  Voters = {a, b, c, d}
  EqV = {a, b}
  LeafBias = FALSE
  PVUnanimous = FALSE
  W <- UnitW
  MaxPV = 2
  MaxPC = 0
  Depth = 0
SYMMETRY SymEq
INVARIANTS TypeOK ChainWhenTolerant
PROPERTY Monotone
VIEW View
CHECK_DEADLOCK FALSE
