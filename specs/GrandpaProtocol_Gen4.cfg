SPECIFICATION SpecRand
CONSTANTS
  NV = 4
  Byz = {4}
  Parent <- P4
  MaxRound = 2
  CommitMin = 3
  PrevoteAboveEstimate = FALSE
  Depth = 120
INVARIANT Dump
CHECK_DEADLOCK FALSE
