SPECIFICATION SpecRand
CONSTANTS
  Txs = {1, 2, 3, 4, 5}
  Prios = {1, 2, 3}
  Depth = 30
INVARIANT Dump
CHECK_DEADLOCK FALSE
