--------------------------- MODULE KeyPaging_Gen ---------------------------
(* Generator / model-checking constants for KeyPaging (C38).               *)
EXTENDS KeyPaging

AllKinds == {"Put", "Delete", "PageAll", "Page", "Pairs"}
MutKinds == {"Put", "Delete"}   \* model checking: the laws are invariants, reads add no state

(* alphabet "short": shared nibble prefixes, a key that is a prefix of     *)
(* others, prefixes ending in a zero nibble (0x10, 0x1201 0x00), a prefix  *)
(* equal to a key, longer than every key, matching nothing                 *)
SKeys == { <<>>, <<16>>, <<16, 0>>, <<18>>, <<18, 1>>, <<18, 2>>, <<31>>, <<32>>, <<18, 83>>, <<18, 84>>, <<255>> }
SVals == { <<>>, <<1>>, <<2>>, Rep(33, 9) }
SPrefixes == { <<>>, <<1>>, <<16>>, <<18>>, <<18, 1>>, <<48>>, <<18, 1, 0>>, <<19>>, <<18, 80>>, <<18, 85>>, <<17, 83>>, <<32>>, <<255>> }
SAfter == SKeys \cup { <<>>, <<17>>, <<18, 1, 5>>, <<255, 255>> }
SQtys == 1..4

(* exhaustive model checking: EVERY map over MKeys is an initial state      *)
MKeys == { <<16>>, <<16, 0>>, <<18>>, <<18, 1>>, <<31>> }
TKeys == { <<16>>, <<16, 0>>, <<18>>, <<18, 1>>, <<18, 83>>, <<31>>, <<18, 1, 0>> }   \* thorough tier
MVals == { <<1>> }   \* values play no part in paging; Pairs only copies them
MPrefixes == { <<>>, <<16>>, <<18>>, <<1>>, <<18, 1>>, <<19>> }
MAfter == { <<>>, <<16>>, <<17>>, <<18>>, <<18, 1>>, <<31>> }
MQtys == 1..3
AllMaps == UNION {[S -> MVals] : S \in SUBSET Keys}
InitAny == states \in {<<m>> : m \in AllMaps} /\ hist = <<>> /\ done = FALSE
SpecAny == InitAny /\ [][NextAll]_vars
=============================================================================
