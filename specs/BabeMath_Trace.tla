--------------------------- MODULE BabeMath_Trace ---------------------------
(***************************************************************************)
(* Engine V of C25: decides the results logged from the REAL               *)
(* CalculateThreshold and getSecondarySlotAuthor (trace.ndjson, written by *)
(* harness/lib/babe/zz_verif_babemath_test.go for TLC-chosen inputs).      *)
(* Every line carries the same fields:                                     *)
(*   ev "reset" | "thr" | "sec", c1, c2, n, t (threshold as little-endian  *)
(*   base-2^15 digits), digest (32 bytes: BLAKE2b-256 of the token the     *)
(*   generator prescribed, computed with x/crypto), idx                    *)
(* A line is consumed only if the property holds for it:                   *)
(*   thr  (S1)+(S2) BmThresholdOK, and (S3) BmMonotonePair against every   *)
(*        earlier threshold of the same block (blocks are separated by     *)
(*        "reset" to bound the quadratic comparison)                       *)
(*   sec  (S4) idx = BE(digest) mod n                                      *)
(* The first line that cannot be consumed is reported by the driver.       *)
(***************************************************************************)
EXTENDS BabeMath, Json, Sequences

Trace == ndJsonDeserialize("trace.ndjson")

VARIABLES l, seen
tvars == <<l, seen>>

TInit == l = 1 /\ seen = {} /\ TLCSet(1, 1)

Ev(e) == l <= Len(Trace) /\ Trace[l].ev = e

TReset == Ev("reset") /\ seen' = {} /\ l' = l + 1

TThr == /\ Ev("thr")
        /\ LET r == [c1 |-> Trace[l].c1, c2 |-> Trace[l].c2, n |-> Trace[l].n, t |-> Trace[l].t] IN
           /\ r.c1 >= 1 /\ r.c1 <= r.c2 /\ r.n >= 1
           /\ BmThresholdOK(r.c1, r.c2, r.n, r.t, 128)
           /\ \A s \in seen : BmMonotonePair(r, s)
           /\ seen' = seen \cup {r}
        /\ l' = l + 1

TSec == /\ Ev("sec")
        /\ Len(Trace[l].digest) = 32
        /\ Trace[l].n >= 1
        /\ Trace[l].idx = BmSecondaryIdx(Trace[l].digest, Trace[l].n)
        /\ l' = l + 1 /\ UNCHANGED seen

TNext == TReset \/ TThr \/ TSec
TraceSpec == TInit /\ [][TNext]_tvars

HighWater == TLCSet(1, IF l > TLCGet(1) THEN l ELSE TLCGet(1))
Accepted == PrintT(<<"VERIF-TRACE", TLCGet(1) - 1, Len(Trace)>>)
=============================================================================
